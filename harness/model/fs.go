// Package model: the reference hierarchical filesystem (POSIX / afero.OsFs semantics)
// and the reference byte-array-with-cursor file handle.
package model

import (
	"os"
	"path"
	"sort"
	"strings"
)

// Error classes. Only nil vs non-nil is ever judged against the implementation.
const (
	OK       = ""
	NotExist = "notexist"
	Exist    = "exist"
	IsDir    = "isdir"
	NotDir   = "notdir"
	NotEmpty = "notempty"
	Invalid  = "invalid"
	Perm     = "perm"
	Closed   = "closed"
)

type Node struct {
	Kind     string // dir | file
	Perm     uint32
	UID, GID int
	Owned    bool // uid/gid were set by Chown (otherwise they are the creating user's: unknown)
	Mtime    int64
	Atime    int64
	Timed    bool // times were set by Chtimes
	Content  []byte
}

type FS struct {
	Nodes map[string]*Node
	// names that ever existed (for the "earlier life" non-triviality rule)
	Ever map[string]bool
	// WPIR mirrors NewSTFS's writePermImpliesReadPerm (what `serve ftp` passes): a handle
	// opened O_WRONLY can be read as well
	WPIR bool
}

func New() *FS {
	return &FS{Nodes: map[string]*Node{"/": {Kind: "dir", Perm: 0777}}, Ever: map[string]bool{}}
}

func Clean(p string) string { return path.Clean("/" + p) }

func (m *FS) Clone() *FS {
	c := &FS{Nodes: map[string]*Node{}, Ever: map[string]bool{}, WPIR: m.WPIR}
	for k, v := range m.Nodes {
		n := *v
		n.Content = append([]byte(nil), v.Content...)
		c.Nodes[k] = &n
	}
	for k := range m.Ever {
		c.Ever[k] = true
	}
	return c
}

func (m *FS) Get(p string) *Node { return m.Nodes[Clean(p)] }

func (m *FS) parentOK(p string) string {
	par := m.Nodes[path.Dir(p)]
	if par == nil {
		return NotExist
	}
	if par.Kind != "dir" {
		return NotDir
	}
	return OK
}

func (m *FS) Children(p string) []string {
	p = Clean(p)
	var out []string
	for k := range m.Nodes {
		if k != "/" && path.Dir(k) == p {
			out = append(out, k)
		}
	}
	sort.Strings(out)
	return out
}

func (m *FS) Descendants(p string) []string {
	p = Clean(p)
	pre := strings.TrimSuffix(p, "/") + "/"
	var out []string
	for k := range m.Nodes {
		if k != p && strings.HasPrefix(k, pre) {
			out = append(out, k)
		}
	}
	sort.Strings(out)
	return out
}

func (m *FS) Paths() []string {
	var out []string
	for k := range m.Nodes {
		out = append(out, k)
	}
	sort.Strings(out)
	return out
}

func (m *FS) Mkdir(p string, perm uint32) string {
	p = Clean(p)
	if m.Nodes[p] != nil {
		return Exist
	}
	if e := m.parentOK(p); e != OK {
		return e
	}
	m.Nodes[p] = &Node{Kind: "dir", Perm: perm & 0777}
	m.Ever[p] = true
	return OK
}

func (m *FS) MkdirAll(p string, perm uint32) string {
	p = Clean(p)
	if n := m.Nodes[p]; n != nil {
		if n.Kind == "dir" {
			return OK
		}
		return NotDir
	}
	// every ancestor must be a directory or missing
	parts := strings.Split(strings.TrimPrefix(p, "/"), "/")
	cur := ""
	for _, c := range parts {
		cur += "/" + c
		if n := m.Nodes[cur]; n != nil && n.Kind != "dir" {
			return NotDir
		}
	}
	cur = ""
	for _, c := range parts {
		cur += "/" + c
		if m.Nodes[cur] == nil {
			m.Nodes[cur] = &Node{Kind: "dir", Perm: perm & 0777}
			m.Ever[cur] = true
		}
	}
	return OK
}

func (m *FS) Remove(p string) string {
	p = Clean(p)
	n := m.Nodes[p]
	if n == nil {
		return NotExist
	}
	if p == "/" {
		return Invalid
	}
	if n.Kind == "dir" && len(m.Children(p)) > 0 {
		return NotEmpty
	}
	delete(m.Nodes, p)
	return OK
}

func (m *FS) RemoveAll(p string) string {
	p = Clean(p)
	if m.Nodes[p] == nil {
		// a missing path is fine unless it passes through a non-directory
		return OK
	}
	if p == "/" {
		return Invalid
	}
	for _, d := range m.Descendants(p) {
		delete(m.Nodes, d)
	}
	delete(m.Nodes, p)
	return OK
}

func (m *FS) Rename(o, n string) string {
	o, n = Clean(o), Clean(n)
	src := m.Nodes[o]
	if src == nil {
		return NotExist
	}
	if o == "/" || n == "/" {
		return Invalid
	}
	if e := m.parentOK(n); e != OK {
		return e
	}
	if o == n {
		return OK
	}
	if strings.HasPrefix(n, o+"/") {
		return Invalid
	}
	if dst := m.Nodes[n]; dst != nil {
		if dst.Kind != src.Kind {
			if dst.Kind == "dir" {
				return IsDir
			}
			return NotDir
		}
		if dst.Kind == "dir" && len(m.Children(n)) > 0 {
			return NotEmpty
		}
		delete(m.Nodes, n)
	}
	moved := append(m.Descendants(o), o)
	for _, k := range moved {
		nk := n + strings.TrimPrefix(k, o)
		m.Nodes[nk] = m.Nodes[k]
		m.Ever[nk] = true
		delete(m.Nodes, k)
	}
	return OK
}

func (m *FS) Chmod(p string, perm uint32) string {
	n := m.Nodes[Clean(p)]
	if n == nil {
		return NotExist
	}
	n.Perm = perm & 0777
	return OK
}

func (m *FS) Chown(p string, uid, gid int) string {
	n := m.Nodes[Clean(p)]
	if n == nil {
		return NotExist
	}
	n.UID, n.GID, n.Owned = uid, gid, true
	return OK
}

func (m *FS) Chtimes(p string, atime, mtime int64) string {
	n := m.Nodes[Clean(p)]
	if n == nil {
		return NotExist
	}
	n.Atime, n.Mtime, n.Timed = atime, mtime, true
	return OK
}

// Open implements the OpenFile flag algebra. It returns a handle on success.
func (m *FS) Open(p string, flag int, perm uint32) (*Handle, string) {
	p = Clean(p)
	n := m.Nodes[p]
	acc := flag & (os.O_RDONLY | os.O_WRONLY | os.O_RDWR)
	if n != nil {
		if flag&os.O_CREATE != 0 && flag&os.O_EXCL != 0 {
			return nil, Exist
		}
		if n.Kind == "dir" {
			if acc != os.O_RDONLY || flag&os.O_TRUNC != 0 {
				return nil, IsDir
			}
			return &Handle{fs: m, Path: p, Dir: true, R: true}, OK
		}
	} else {
		if flag&os.O_CREATE == 0 {
			return nil, NotExist
		}
		if e := m.parentOK(p); e != OK {
			return nil, e
		}
		n = &Node{Kind: "file", Perm: perm & 0777}
		m.Nodes[p] = n
		m.Ever[p] = true
	}
	h := &Handle{fs: m, Path: p, R: acc == os.O_RDONLY || acc == os.O_RDWR || (m.WPIR && acc == os.O_WRONLY), W: acc == os.O_WRONLY || acc == os.O_RDWR, Append: flag&os.O_APPEND != 0}
	if flag&os.O_TRUNC != 0 && h.W {
		if len(n.Content) > 0 {
			n.Timed = false
		}
		n.Content = nil
	}
	return h, OK
}
