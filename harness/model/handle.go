package model

import "io"

// Handle is the reference open file: the node's byte slice plus a cursor and flags.
type Handle struct {
	fs     *FS
	Path   string
	Dir    bool
	R, W   bool
	Append bool
	Pos    int64
	closed bool
}

func (h *Handle) node() *Node { return h.fs.Nodes[h.Path] }

func (h *Handle) Size() int64 {
	if n := h.node(); n != nil {
		return int64(len(n.Content))
	}
	return 0
}

func (h *Handle) Read(n int) ([]byte, bool, string) { // data, eof, err
	if h.closed {
		return nil, false, Closed
	}
	if h.Dir {
		return nil, false, IsDir
	}
	if !h.R {
		return nil, false, Perm
	}
	if n == 0 {
		return nil, false, OK
	}
	c := h.node().Content
	if h.Pos >= int64(len(c)) {
		return nil, true, OK
	}
	end := h.Pos + int64(n)
	if end > int64(len(c)) {
		end = int64(len(c))
	}
	out := append([]byte(nil), c[h.Pos:end]...)
	h.Pos = end
	return out, false, OK
}

func (h *Handle) ReadAt(n int, off int64) ([]byte, bool, string) {
	if h.closed {
		return nil, false, Closed
	}
	if h.Dir {
		return nil, false, IsDir
	}
	if !h.R {
		return nil, false, Perm
	}
	if off < 0 {
		return nil, false, Invalid
	}
	if n == 0 {
		return nil, false, OK
	}
	c := h.node().Content
	if off >= int64(len(c)) {
		return nil, true, OK
	}
	end := off + int64(n)
	eof := false
	if end > int64(len(c)) {
		end = int64(len(c))
		eof = true
	}
	return append([]byte(nil), c[off:end]...), eof, OK
}

func (h *Handle) Seek(off int64, whence int) (int64, string) {
	if h.closed {
		return 0, Closed
	}
	var np int64
	switch whence {
	case io.SeekStart:
		np = off
	case io.SeekCurrent:
		np = h.Pos + off
	case io.SeekEnd:
		np = h.Size() + off
	default:
		return 0, Invalid
	}
	if np < 0 {
		return 0, Invalid
	}
	h.Pos = np
	return np, OK
}

func (h *Handle) writeAt(p []byte, off int64) {
	if len(p) == 0 {
		return // a zero-length write never extends the file
	}
	n := h.node()
	n.Timed = false // a write sets mtime to "now": unknown to the reference
	if int64(len(n.Content)) < off+int64(len(p)) {
		grown := make([]byte, off+int64(len(p)))
		copy(grown, n.Content)
		n.Content = grown
	}
	copy(n.Content[off:], p)
}

func (h *Handle) Write(p []byte) (int, string) {
	if h.closed {
		return 0, Closed
	}
	if h.Dir {
		return 0, IsDir
	}
	if !h.W {
		return 0, Perm
	}
	if h.Append {
		h.Pos = h.Size()
	}
	h.writeAt(p, h.Pos)
	h.Pos += int64(len(p))
	return len(p), OK
}

func (h *Handle) WriteAt(p []byte, off int64) (int, string) {
	if h.closed {
		return 0, Closed
	}
	if h.Dir {
		return 0, IsDir
	}
	if !h.W {
		return 0, Perm
	}
	if off < 0 {
		return 0, Invalid
	}
	h.writeAt(p, off)
	return len(p), OK
}

func (h *Handle) Truncate(size int64) string {
	if h.closed {
		return Closed
	}
	if h.Dir {
		return IsDir
	}
	if !h.W {
		return Perm
	}
	if size < 0 {
		return Invalid
	}
	n := h.node()
	n.Timed = false
	if size <= int64(len(n.Content)) {
		n.Content = n.Content[:size]
	} else {
		grown := make([]byte, size)
		copy(grown, n.Content)
		n.Content = grown
	}
	return OK
}

func (h *Handle) Close() string {
	if h.closed {
		return Closed
	}
	h.closed = true
	return OK
}

// NewHandle makes a reference handle on an existing node (used to mirror handles that the
// implementation handed out in situations the reference does not model).
func NewHandle(fs *FS, p string, r, w bool) *Handle {
	n := fs.Nodes[Clean(p)]
	return &Handle{fs: fs, Path: Clean(p), Dir: n != nil && n.Kind == "dir", R: r, W: w}
}
