package hist

import (
	"archive/tar"
	"bytes"
	"errors"
	"fmt"
	"io"
	"io/fs"
	"os"
	"path"
	"path/filepath"
	"strings"
	"time"

	"github.com/pojntfx/stfs/pkg/config"
	"github.com/spf13/afero"
	"verif/harness/live"
	"verif/harness/observe"
	"verif/harness/world"
)

const NSlots = 3

type Slot struct {
	H     afero.File
	Path  string
	Flag  int
	Dirty bool // a mutating handle call was issued
	Mut   bool // opened with write access
}

// Res is what one step returned.
type Res struct {
	Skipped bool // the step did not apply (e.g. empty slot); nothing was called
	Err     error
	N       int
	Off     int64
	Data    []byte
	EOF     bool
	Names   []string
	Infos   []observe.Entry
	Info    *observe.Entry
	// Name: what the handle (open/create) or the FileInfo (stat/fstat) calls itself
	Name string
	Hang *observe.HangError
}

type Runner struct {
	Cfg   world.Cfg
	Dir   string
	W     *world.World
	Slots [NSlots]*Slot
	Opts  world.Opts
}

// Call routes one call through the watchdog.
func Call(name string, f func()) error {
	v, detail := live.Do(name, f)
	switch v {
	case live.Hang:
		return &observe.HangError{Verdict: v, Detail: "HANG: " + detail}
	case live.Timeout:
		return &observe.HangError{Verdict: v, Detail: "TIMEOUT: " + detail}
	}
	return nil
}

func NewRunner(cfg world.Cfg, opts world.Opts) (*Runner, error) {
	if opts.Dir == "" {
		opts.Dir = world.NewDir("case")
	}
	r := &Runner{Cfg: cfg, Dir: opts.Dir, Opts: opts}
	var err error
	var w *world.World
	if e := Call("New+Initialize", func() { w, err = world.New(cfg, opts) }); e != nil {
		return nil, e
	}
	if err != nil {
		return nil, err
	}
	r.W = w
	return r, nil
}

// Finish closes every handle and the index, and removes the scratch directory.
func (r *Runner) Finish() {
	for i, s := range r.Slots {
		if s != nil {
			_ = Call("Close(finish)", func() { _ = s.H.Close() })
			r.Slots[i] = nil
		}
	}
	r.W.Close()
	_ = os.RemoveAll(r.Dir)
}

// DirtyPaths lists paths that have an open handle with uncommitted writes.
func (r *Runner) OpenPaths() map[string]bool {
	m := map[string]bool{}
	for _, s := range r.Slots {
		if s != nil {
			m[observe.Clean(s.Path)] = true
		}
	}
	return m
}

// FileBackedSources, when set to a directory, makes synthetic members come from real
// *os.File sources in that directory (as the CLI's Archive/Update pass them).
var FileBackedSources string

type removeOnClose struct{ *os.File }

func (r removeOnClose) Close() error {
	err := r.File.Close()
	_ = os.Remove(r.File.Name())
	return err
}

// HideWriterTo makes synthetic sources behave like an *os.File source (copied in 32 KiB
// chunks) instead of exposing bytes.Reader's WriteTo (guard of finding F-29).
var HideWriterTo bool
var OnHidden func()

type plainReadSeekCloser struct{ r *bytes.Reader }

func (p plainReadSeekCloser) Read(b []byte) (int, error)         { return p.r.Read(b) }
func (p plainReadSeekCloser) Seek(o int64, w int) (int64, error) { return p.r.Seek(o, w) }
func (plainReadSeekCloser) Close() error                         { return nil }

type memReadSeekCloser struct{ *bytes.Reader }

func (memReadSeekCloser) Close() error { return nil }

// ErrSourceUnreadable is what a member with FailOpen returns instead of its content.
var ErrSourceUnreadable = errors.New("source cannot be opened (injected)")

func memberSource(ms []Member) func() (config.FileConfig, error) {
	i := 0
	return func() (config.FileConfig, error) {
		if i >= len(ms) {
			return config.FileConfig{}, io.EOF
		}
		m := ms[i]
		i++
		h := &tar.Header{Name: m.Path, Mode: int64(m.Perm), ModTime: time.Unix(0, m.Mtime), Uid: 1000 + i, Gid: 2000 + i}
		var data []byte
		switch m.Kind {
		case "dir":
			h.Typeflag = tar.TypeDir
		case "link":
			h.Typeflag = tar.TypeSymlink
			h.Linkname = m.Link
		default:
			h.Typeflag = tar.TypeReg
			data = Bytes(m.Size, m.Dist, m.Seed)
			h.Size = int64(len(data))
		}
		return config.FileConfig{
			GetFile: func() (io.ReadSeekCloser, error) {
				if m.FailOpen {
					return nil, ErrSourceUnreadable
				}
				if FileBackedSources != "" {
					// what the CLI passes: an *os.File
					f, err := os.CreateTemp(FileBackedSources, "src-*")
					if err != nil {
						return nil, err
					}
					if _, err := f.Write(data); err != nil {
						return nil, err
					}
					if _, err := f.Seek(0, io.SeekStart); err != nil {
						return nil, err
					}
					return removeOnClose{f}, nil
				}
				if HideWriterTo {
					if OnHidden != nil && len(data) > 32*1024 {
						OnHidden()
					}
					return plainReadSeekCloser{bytes.NewReader(data)}, nil
				}
				return memReadSeekCloser{bytes.NewReader(data)}, nil
			},
			Info: h.FileInfo(),
			Path: m.Path,
			Link: m.Link,
		}, nil
	}
}

func entryOf(p string, fi os.FileInfo) *observe.Entry {
	e := observe.Entry{Path: p, Size: fi.Size(), Perm: uint32(fi.Mode().Perm()), Mtime: fi.ModTime().UnixNano()}
	if fi.IsDir() {
		e.Kind = "dir"
	} else {
		e.Kind = "file"
	}
	return &e
}

// Do executes one step against the real system.
func (r *Runner) Do(s Step) (res Res) {
	call := func(f func()) bool {
		if e := Call(s.String(), f); e != nil {
			res.Hang = e.(*observe.HangError)
			return false
		}
		return true
	}
	fsys := r.W.FS
	slot := func() *Slot {
		if s.Slot < 0 || s.Slot >= NSlots {
			return nil
		}
		return r.Slots[s.Slot]
	}
	switch s.Op {
	case "create", "openfile", "open":
		if s.Slot < 0 || s.Slot >= NSlots || r.Slots[s.Slot] != nil {
			res.Skipped = true
			return
		}
		var h afero.File
		flag := s.Flag
		call(func() {
			switch s.Op {
			case "create":
				h, res.Err = fsys.Create(s.Path)
				flag = os.O_RDWR | os.O_CREATE | os.O_TRUNC
			case "open":
				h, res.Err = fsys.Open(s.Path)
				flag = os.O_RDONLY
			default:
				h, res.Err = fsys.OpenFile(s.Path, s.Flag, os.FileMode(s.Perm))
			}
		})
		if res.Hang == nil && res.Err == nil && h != nil {
			acc := flag & (os.O_WRONLY | os.O_RDWR)
			// truncation is committed at Close/Sync like every other write
			r.Slots[s.Slot] = &Slot{H: h, Path: s.Path, Flag: flag, Mut: acc != 0, Dirty: acc != 0 && flag&os.O_TRUNC != 0}
			res.Name = h.Name()
		}
	case "write", "writestring", "writeat":
		sl := slot()
		if sl == nil {
			res.Skipped = true
			return
		}
		data := Bytes(s.Size, s.Dist, s.Seed)
		call(func() {
			switch s.Op {
			case "write":
				res.N, res.Err = sl.H.Write(data)
			case "writestring":
				res.N, res.Err = sl.H.WriteString(string(data))
			default:
				res.N, res.Err = sl.H.WriteAt(data, s.Off)
			}
		})
		if res.Err == nil {
			sl.Dirty = true
		}
	case "read", "readat":
		sl := slot()
		if sl == nil {
			res.Skipped = true
			return
		}
		buf := make([]byte, s.N)
		call(func() {
			if s.Op == "read" {
				res.N, res.Err = sl.H.Read(buf)
			} else {
				res.N, res.Err = sl.H.ReadAt(buf, s.Off)
			}
		})
		if res.N > 0 && res.N <= len(buf) {
			res.Data = buf[:res.N]
		}
		if res.Err == io.EOF {
			res.EOF = true
			res.Err = nil
		}
	case "seek":
		sl := slot()
		if sl == nil {
			res.Skipped = true
			return
		}
		call(func() { res.Off, res.Err = sl.H.Seek(s.Off, s.Whence) })
	case "truncate":
		sl := slot()
		if sl == nil {
			res.Skipped = true
			return
		}
		call(func() { res.Err = sl.H.Truncate(s.Off) })
		if res.Err == nil {
			sl.Dirty = true
		}
	case "sync":
		sl := slot()
		if sl == nil {
			res.Skipped = true
			return
		}
		call(func() { res.Err = sl.H.Sync() })
	case "fstat":
		sl := slot()
		if sl == nil {
			res.Skipped = true
			return
		}
		call(func() {
			fi, err := sl.H.Stat()
			res.Err = err
			if err == nil {
				res.Info = entryOf(sl.Path, fi)
				res.Name = fi.Name()
			}
		})
	case "close":
		sl := slot()
		if sl == nil {
			res.Skipped = true
			return
		}
		call(func() { res.Err = sl.H.Close() })
		r.Slots[s.Slot] = nil
	case "mkdir":
		call(func() { res.Err = fsys.Mkdir(s.Path, os.FileMode(s.Perm)) })
	case "mkdirall":
		call(func() { res.Err = fsys.MkdirAll(s.Path, os.FileMode(s.Perm)) })
	case "remove":
		call(func() { res.Err = fsys.Remove(s.Path) })
	case "removeall":
		call(func() { res.Err = fsys.RemoveAll(s.Path) })
	case "rename":
		call(func() { res.Err = fsys.Rename(s.Path, s.Path2) })
	case "chmod":
		call(func() { res.Err = fsys.Chmod(s.Path, os.FileMode(s.Perm)) })
	case "chown":
		call(func() { res.Err = fsys.Chown(s.Path, s.UID, s.GID) })
	case "chtimes":
		call(func() { res.Err = fsys.Chtimes(s.Path, time.Unix(0, s.Atime), time.Unix(0, s.Mtime)) })
	case "symlink":
		call(func() { res.Err = fsys.SymlinkIfPossible(s.Path, s.Path2) })
	case "stat":
		call(func() {
			fi, err := fsys.Stat(s.Path)
			res.Err = err
			if err == nil {
				res.Info = entryOf(observe.Clean(s.Path), fi)
				res.Name = fi.Name()
			}
		})
	case "list":
		var h afero.File
		if !call(func() { h, res.Err = fsys.Open(s.Path) }) || res.Err != nil {
			return
		}
		call(func() {
			infos, err := h.Readdir(s.N)
			res.Err = err
			for _, fi := range infos {
				res.Names = append(res.Names, fi.Name())
				res.Infos = append(res.Infos, *entryOf(path.Join(observe.Clean(s.Path), fi.Name()), fi))
			}
		})
		if res.Hang == nil && res.Err != nil {
			// the other listing method is refused just the same (and leaves nothing held)
			call(func() {
				if _, err := h.Readdirnames(s.N); err == nil {
					res.Err = nil
				}
			})
		}
		call(func() { _ = h.Close() })
	case "reopen":
		for i, sl := range r.Slots {
			if sl != nil {
				call(func() { _ = sl.H.Close() })
				r.Slots[i] = nil
			}
		}
		r.W.Close()
		var w *world.World
		r.Opts.Overwrite = false // starting the tape over is a one-off of the first instance
		call(func() { w, res.Err = world.New(r.Cfg, r.Opts) })
		if res.Hang == nil && res.Err == nil {
			r.W = w
			if w.InitErr != nil {
				res.Err = fmt.Errorf("initialize after reopen: %w", w.InitErr)
			}
		}
	case "rebuild":
		// throw the index away and continue on an instance that rebuilt it from the tape
		for i, sl := range r.Slots {
			if sl != nil {
				call(func() { _ = sl.H.Close() })
				r.Slots[i] = nil
			}
		}
		r.W.Close()
		r.Opts.Overwrite = false
		r.Opts.DB = fmt.Sprintf("%s.rebuilt-%d", strings.TrimSuffix(r.W.DB, filepath.Ext(r.W.DB)), time.Now().UnixNano())
		r.Opts.Drive = r.W.Drive
		var w *world.World
		call(func() { w, res.Err = world.New(r.Cfg, r.Opts) })
		if res.Hang == nil && res.Err == nil {
			r.W = w
			if w.InitErr != nil {
				res.Err = fmt.Errorf("initialize over an empty index: %w", w.InitErr)
			}
		}
	case "arch_archive":
		call(func() { _, res.Err = r.W.WriteOps.Archive(memberSource(s.Members), r.Cfg.Level, false, false) })
	case "arch_update":
		call(func() { _, res.Err = r.W.WriteOps.Update(memberSource(s.Members), r.Cfg.Level, s.Replace, false) })
	case "arch_delete":
		call(func() { res.Err = r.W.WriteOps.Delete(s.Path) })
	case "arch_move":
		call(func() { res.Err = r.W.WriteOps.Move(s.Path, s.Path2) })
	case "arch_restore":
		var buf bytes.Buffer
		call(func() {
			res.Err = r.W.ReadOps.Restore(
				func(string, fs.FileMode) (io.WriteCloser, error) { return nopWC{&buf}, nil },
				func(string, fs.FileMode) error { return nil },
				s.Path, "", true)
		})
		res.Data = buf.Bytes()
	default:
		res.Err = errors.New("unknown op " + s.Op)
		res.Skipped = true
	}
	return
}

type nopWC struct{ io.Writer }

func (nopWC) Close() error { return nil }

// Mutating reports whether a step kind can change the tape.
func Mutating(op string) bool {
	switch op {
	case "stat", "list", "read", "readat", "seek", "fstat", "open", "arch_restore":
		return false
	}
	return true
}

// MemberSourceFor exposes the synthetic member source to property code.
func MemberSourceFor(ms []Member) func() (config.FileConfig, error) { return memberSource(ms) }
