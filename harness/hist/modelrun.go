package hist

import (
	"os"
	"path"
	"sort"

	"verif/harness/model"
)

const OKs = ""

// MRes is what the reference model says a step returns.
type MRes struct {
	Skipped  bool
	Err      string
	DontCare bool // the reference semantics leave the outcome open
	N        int
	Off      int64
	Data     []byte
	EOF      bool
	Names    []string
}

// MRunner steps the reference model in lock-step with Runner.
type MRunner struct {
	M     *model.FS
	Slots [NSlots]*model.Handle
	Flags [NSlots]int
	// CursorOpen: after WriteAt the references disagree on where the cursor is
	CursorOpen [NSlots]bool
	// Streaming: the slot may hold a half-consumed read stream (finding F-11)
	Streaming [NSlots]bool
	// Links: link path -> target path of every symlink created so far (generation only)
	Links map[string]string
	// Addressed: every path that was an operand of a remove, rename, delete or move so far
	// (generation only: records that a later replay would apply to rows of that name)
	Addressed map[string]bool
}

// WasAddressedAbove reports whether p or one of its ancestors was an operand of a remove,
// rename, delete or move earlier in the history.
func (r *MRunner) WasAddressedAbove(p string) bool {
	p = model.Clean(p)
	for a := range r.Addressed {
		if p == a || (len(p) > len(a) && p[:len(a)] == a && (a == "/" || p[len(a)] == '/')) {
			return true
		}
	}
	return false
}

// TouchesLink reports whether p is, contains or lies on the path of a symlink or its target.
func (r *MRunner) TouchesLink(p string) bool {
	p = model.Clean(p)
	in := func(a, b string) bool {
		return a == b || (len(a) > len(b) && a[:len(b)] == b && (b == "/" || a[len(b)] == '/'))
	}
	for l, t := range r.Links {
		if in(l, p) || in(t, p) || in(p, l) || in(p, t) {
			return true
		}
	}
	return false
}

func NewMRunner() *MRunner { return &MRunner{M: model.New()} }

func (r *MRunner) OpenPaths() map[string]bool {
	m := map[string]bool{}
	for _, h := range r.Slots {
		if h != nil {
			m[h.Path] = true
		}
	}
	return m
}

// HasOpenUnder reports whether an open handle sits on p or below it.
func (r *MRunner) HasOpenUnder(p string) bool {
	p = model.Clean(p)
	for _, h := range r.Slots {
		if h == nil {
			continue
		}
		if h.Path == p || (len(h.Path) > len(p) && h.Path[:len(p)] == p && (p == "/" || h.Path[len(p)] == '/')) {
			return true
		}
	}
	return false
}

func (r *MRunner) Do(s Step) (res MRes) {
	m := r.M
	slot := func() *model.Handle {
		if s.Slot < 0 || s.Slot >= NSlots {
			return nil
		}
		return r.Slots[s.Slot]
	}
	switch s.Op {
	case "remove", "removeall", "rename", "arch_delete", "arch_move":
		if r.Addressed == nil {
			r.Addressed = map[string]bool{}
		}
		r.Addressed[model.Clean(s.Path)] = true
		if s.Path2 != "" {
			r.Addressed[model.Clean(s.Path2)] = true
		}
	}
	switch s.Op {
	case "create", "openfile", "open":
		if s.Slot < 0 || s.Slot >= NSlots || r.Slots[s.Slot] != nil {
			res.Skipped = true
			return
		}
		flag, perm := s.Flag, s.Perm
		if s.Op == "create" {
			flag, perm = os.O_RDWR|os.O_CREATE|os.O_TRUNC, 0666
		} else if s.Op == "open" {
			flag = os.O_RDONLY
		}
		h, e := m.Open(s.Path, flag, perm)
		res.Err = e
		if h != nil {
			r.Slots[s.Slot] = h
			r.Flags[s.Slot] = flag
		}
	case "write", "writestring":
		h := slot()
		if h == nil {
			res.Skipped = true
			return
		}
		res.N, res.Err = h.Write(Bytes(s.Size, s.Dist, s.Seed))
	case "writeat":
		h := slot()
		if h == nil {
			res.Skipped = true
			return
		}
		res.N, res.Err = h.WriteAt(Bytes(s.Size, s.Dist, s.Seed), s.Off)
		if res.Err == OKs {
			r.CursorOpen[s.Slot] = true
		}
	case "read":
		h := slot()
		if h == nil {
			res.Skipped = true
			return
		}
		res.Data, res.EOF, res.Err = h.Read(s.N)
		res.N = len(res.Data)
	case "readat":
		h := slot()
		if h == nil {
			res.Skipped = true
			return
		}
		res.Data, res.EOF, res.Err = h.ReadAt(s.N, s.Off)
		res.N = len(res.Data)
	case "seek":
		h := slot()
		if h == nil {
			res.Skipped = true
			return
		}
		res.Off, res.Err = h.Seek(s.Off, s.Whence)
		if res.Err == OKs && s.Whence != 1 {
			r.CursorOpen[s.Slot] = false
		}
	case "truncate":
		h := slot()
		if h == nil {
			res.Skipped = true
			return
		}
		res.Err = h.Truncate(s.Off)
	case "sync", "fstat":
		h := slot()
		if h == nil {
			res.Skipped = true
			return
		}
		if s.Op == "sync" && h.Dir {
			res.DontCare = true
		}
		res.Off = h.Size()
	case "close":
		h := slot()
		if h == nil {
			res.Skipped = true
			return
		}
		res.Err = h.Close()
		r.Slots[s.Slot] = nil
		r.CursorOpen[s.Slot] = false
	case "mkdir":
		res.Err = m.Mkdir(s.Path, s.Perm)
	case "mkdirall":
		res.Err = m.MkdirAll(s.Path, s.Perm)
	case "remove":
		res.Err = m.Remove(s.Path)
	case "removeall":
		res.Err = m.RemoveAll(s.Path)
	case "rename":
		res.Err = m.Rename(s.Path, s.Path2)
	case "chmod":
		res.Err = m.Chmod(s.Path, s.Perm)
	case "chown":
		res.Err = m.Chown(s.Path, s.UID, s.GID)
	case "chtimes":
		res.Err = m.Chtimes(s.Path, s.Atime, s.Mtime)
	case "stat":
		if m.Get(s.Path) == nil {
			res.Err = model.NotExist
		}
	case "list":
		n := m.Get(s.Path)
		if n == nil {
			res.Err = model.NotExist
		} else if n.Kind != "dir" {
			res.Err = model.NotDir
		} else {
			for _, c := range m.Children(s.Path) {
				res.Names = append(res.Names, path.Base(c))
			}
			sort.Strings(res.Names)
		}
	case "reopen", "rebuild":
		for i := range r.Slots {
			r.Slots[i] = nil
			r.CursorOpen[i] = false
			r.Streaming[i] = false
		}
	case "symlink":
		res.DontCare = true
		if c := model.Clean(s.Path2); m.Get(c) == nil && m.Get(parentOf(c)) != nil && m.Get(parentOf(c)).Kind == "dir" {
			m.Nodes[c] = &model.Node{Kind: "link", Perm: 0777}
			m.Ever[c] = true
			if r.Links == nil {
				r.Links = map[string]string{}
			}
			r.Links[c] = model.Clean(s.Path)
		}
	case "arch_archive":
		res.DontCare = true
		for _, mb := range s.Members {
			if mb.FailOpen {
				break // the call stops at the member whose source cannot be read
			}
			if m.Get(mb.Path) == nil && m.Get(parentOf(mb.Path)) != nil {
				if mb.Kind == "dir" {
					m.Mkdir(mb.Path, mb.Perm)
				} else if mb.Kind == "file" {
					if h, e := m.Open(mb.Path, os.O_CREATE|os.O_WRONLY, mb.Perm); e == "" {
						h.Write(Bytes(mb.Size, mb.Dist, mb.Seed))
					}
				}
			}
		}
	case "arch_update":
		res.DontCare = true
		for _, mb := range s.Members {
			if mb.FailOpen {
				break
			}
			if n := m.Get(mb.Path); n != nil && n.Kind == "file" && mb.Kind == "file" && s.Replace {
				n.Content = Bytes(mb.Size, mb.Dist, mb.Seed)
			}
		}
	case "arch_delete":
		res.DontCare = true
		m.RemoveAll(s.Path)
	case "arch_move":
		res.DontCare = true
		m.Rename(s.Path, s.Path2)
	default:
		res.DontCare = true
	}
	return
}

func parentOf(p string) string { return path.Dir(model.Clean(p)) }
