package hist

import (
	"bytes"
	"fmt"
	"strconv"
	"strings"
)

func paxRecord(k, v string) string {
	size := len(k) + len(v) + 3
	size += len(strconv.Itoa(size))
	rec := strconv.Itoa(size) + " " + k + "=" + v + "\n"
	if len(rec) != size {
		size = len(rec)
		rec = strconv.Itoa(size) + " " + k + "=" + v + "\n"
	}
	return rec
}

// headerBlock builds a 512-byte V7 tar header block without NUL or '/' bytes (so that it
// can be part of a file name) and with a valid checksum.
func headerBlock(typeflag byte, size int) []byte {
	b := bytes.Repeat([]byte{'A'}, 512)
	copy(b[100:108], "0000644 ")
	copy(b[108:116], "0000000 ")
	copy(b[116:124], "0000000 ")
	copy(b[124:136], fmt.Sprintf("%011o ", size))
	copy(b[136:148], fmt.Sprintf("%011o ", 1600000))
	copy(b[148:156], "        ")
	b[156] = typeflag
	sum := 0
	for _, c := range b {
		sum += int(c)
	}
	copy(b[148:156], fmt.Sprintf("%07o ", sum))
	return b
}

// InjectionName returns a '/'-free, NUL-free file name that embeds, at 24 byte alignments,
// the three blocks [extended header][PAX records][header] of a well-formed STFS record
// that deletes (action "DELETE") or renames away (action "MOVE") the victim. A reader that
// starts parsing in the middle of the record that carries this name finds a valid member.
func InjectionName(victim, action string) string {
	v := strings.TrimPrefix(victim, "/")
	pax := paxRecord("STFS.Version", "1")
	switch action {
	case "MOVE":
		pax += paxRecord("STFS.Action", "UPDATE") + paxRecord("STFS.ReplacesName", v) + paxRecord("path", "stolen-by-a-ghost-record")
	default:
		pax += paxRecord("STFS.Action", "DELETE") + paxRecord("path", v)
	}
	xhdr := headerBlock('x', len(pax))
	data := append([]byte(pax), bytes.Repeat([]byte{'A'}, 512-len(pax)%512)...)
	hdr := headerBlock('0', 0)
	triple := append(append(append([]byte{}, xhdr...), data...), hdr...)
	blob := bytes.Repeat([]byte{'B'}, 512-48)
	for i := 0; i < 24; i++ {
		blob = append(blob, triple...)
		blob = append(blob, 'B')
	}
	return string(blob)
}
