package hist

import (
	"os"
	"path"
	"strings"

	"pgregory.net/rapid"
	"verif/harness/model"
	"verif/harness/world"
)

// Universe of name components (DESIGN §3.8): SQL wildcards, ASCII-case variants,
// prefix-related siblings, dots, spaces, non-ASCII, pipeline suffixes, one long name.
var Universe = []string{"a", "b", "ab", "a_", "a%", "A", ".x", "x.y", "a b", "é", "日本", "x.gz", "x.zst.age", "c", "d", strings.Repeat("L", 120),
	// pattern metacharacters of GLOB / LIKE ESCAPE / regular expressions, and quotes
	"a[b]", "a?", "a*", "[a-c]", "a\\b", "it's", "q\"q", "^a$", "a+", "{a,b}", "\U0010ffffq", "\U0010ffff",
	// supplementary-plane characters (4-byte UTF-8), a combining sequence, the highest BMP character, DEL
	"😀", "𝄞a", "a😀", "e\u0301", "\uffff", "\uffffa", "a\x7f", "~", "\u00a0",
	// names that path arithmetic may take for relative steps
	"..x", "...", "..a..", "a..", "-", "--x"}

var Compressions = []string{"", "gzip", "parallelgzip", "lz4", "zstandard", "brotli", "bzip2", "parallelbzip2"}
var Levels = []string{"fastest", "balanced", "smallest"}
var Encryptions = []string{"", "age", "pgp"}
var Signatures = []string{"", "minisign", "pgp"}
var RecordSizes = []int{1, 2, 3, 7, 20, 64, 128, 256}

// DrawCfg draws a pipeline configuration. plainBias is the probability (in %) of the
// none/none/none pipeline, which keeps most cases cheap while every format is reached.
func DrawCfg(t *rapid.T, plainBias int, rss []int) world.Cfg {
	if rss == nil {
		rss = RecordSizes
	}
	c := world.Cfg{Level: rapid.SampledFrom(Levels).Draw(t, "level"), RecordSize: rapid.SampledFrom(rss).Draw(t, "record_size"), WriteCache: rapid.SampledFrom([]string{"memory", "file"}).Draw(t, "write_cache")}
	if rapid.IntRange(0, 99).Draw(t, "plain?") < plainBias {
		return c
	}
	c.Compression = rapid.SampledFrom(Compressions).Draw(t, "compression")
	c.Encryption = rapid.SampledFrom(Encryptions).Draw(t, "encryption")
	c.Signature = rapid.SampledFrom(Signatures).Draw(t, "signature")
	return c
}

// Gen draws steps from the state of the reference model so that interesting calls are
// constructed, not filtered for.
type Gen struct {
	Comps []string
	// SuffixNames: the components include names ending in the pipeline suffix
	SuffixNames bool
	suffixed    string
	// Repeat: one draw in Repeat re-issues an earlier path-level call of the case verbatim (0 = never)
	Repeat int
	// FailingSources: one non-empty file member in FailingSources has a source that cannot be opened (0 = never)
	FailingSources int
	// HugeTruncates: Truncate may grow a file by 8 MiB + 1234 bytes (set for pipelines without compression and encryption)
	HugeTruncates bool
	// RelSpell: one path operand in RelSpell is spelled relative to the root ("d/f", "./d/f") instead of absolute (0 = never)
	RelSpell int
	past     []Step
	Weights  map[string]int
	MaxSize  int
	RS       int
	ops      []string
	Avoid    func(s Step, mr *MRunner) string // guard name if the step must be steered away
	Excluded map[string]int
	Markers  bool // C09: every name, content, owner and timestamp carries a marker
}

// Marker values used when Gen.Markers is set (DESIGN §4/C09).
var (
	MarkerUIDs  = []int{7654321, 6543217, 5432176}
	MarkerGIDs  = []int{8765432, 7654328, 6543287}
	MarkerTimes = []int64{1234567891, 1987654321, 1357924680}
)

func NewGen(t *rapid.T, weights map[string]int, universe []string, ncomps int, rs int) *Gen {
	g := &Gen{Weights: weights, RS: rs, MaxSize: 300 << 10, Excluded: map[string]int{}, Repeat: 12}
	idx := rapid.SliceOfNDistinct(rapid.IntRange(0, len(universe)-1), ncomps, ncomps, rapid.ID[int]).Draw(t, "comps")
	for _, i := range idx {
		g.Comps = append(g.Comps, universe[i])
	}
	var keys []string
	for k := range weights {
		keys = append(keys, k)
	}
	// deterministic order
	for i := 0; i < len(keys); i++ {
		for j := i + 1; j < len(keys); j++ {
			if keys[j] < keys[i] {
				keys[i], keys[j] = keys[j], keys[i]
			}
		}
	}
	for _, k := range keys {
		for i := 0; i < weights[k]; i++ {
			g.ops = append(g.ops, k)
		}
	}
	return g
}

func (g *Gen) comp(t *rapid.T) string { return rapid.SampledFrom(g.Comps).Draw(t, "comp") }

func pick(t *rapid.T, xs []string, label string) string {
	return rapid.SampledFrom(xs).Draw(t, label)
}

func (g *Gen) existing(t *rapid.T, m *model.FS, kind string) (string, bool) {
	var c []string
	for _, p := range m.Paths() {
		if p == "/" {
			continue
		}
		if kind == "" || m.Nodes[p].Kind == kind {
			c = append(c, p)
		}
	}
	if len(c) == 0 {
		return "", false
	}
	return pick(t, c, "existing"), true
}

// populated picks a directory that has at least one entry below it (recursive calls have
// something to recurse into); ok=false if there is none.
func (g *Gen) populated(t *rapid.T, m *model.FS) (string, bool) {
	var c []string
	for _, p := range m.Paths() {
		if p != "/" && m.Nodes[p].Kind == "dir" && len(m.Children(p)) > 0 {
			c = append(c, p)
		}
	}
	if len(c) == 0 {
		return "", false
	}
	return pick(t, c, "populated"), true
}

func (g *Gen) dirs(m *model.FS) []string {
	var c []string
	for _, p := range m.Paths() {
		if m.Nodes[p].Kind == "dir" && strings.Count(p, "/") <= 3 {
			c = append(c, p)
		}
	}
	return c
}

// fresh path: an existing directory plus a component (may collide with an existing name,
// which is wanted: names are reused).
func (g *Gen) under(t *rapid.T, m *model.FS) string {
	d := pick(t, g.dirs(m), "dir")
	return path.Join(d, g.comp(t))
}

// anyPath: mostly existing or creatable, sometimes with a missing parent or under a file.
func (g *Gen) anyPath(t *rapid.T, m *model.FS) string {
	switch k := rapid.IntRange(0, 9).Draw(t, "pathkind"); {
	case k <= 4:
		if p, ok := g.existing(t, m, ""); ok {
			return p
		}
		return g.under(t, m)
	case k <= 7:
		return g.under(t, m)
	case k == 8:
		return path.Join(g.under(t, m), g.comp(t)) // possibly missing parent / under a file
	default:
		if p, ok := g.existing(t, m, "file"); ok {
			return path.Join(p, g.comp(t)) // under a regular file
		}
		return "/" + g.comp(t) + "/" + g.comp(t)
	}
}

func (g *Gen) size(t *rapid.T) int {
	rec := g.RS * 512
	cands := []int{0, 1, 511, 512, 513, rec - 1, rec, rec + 1, 3*rec + 17}
	w := rapid.IntRange(0, 99).Draw(t, "sizeclass")
	var s int
	switch {
	case w < 55:
		s = rapid.IntRange(0, 600).Draw(t, "smallsize")
	case w < 90:
		s = rapid.SampledFrom(cands[:5]).Draw(t, "edgesize")
	default:
		s = rapid.SampledFrom(cands[5:]).Draw(t, "recsize")
	}
	if s > g.MaxSize {
		s = g.MaxSize
	}
	if s < 0 {
		s = 0
	}
	return s
}

func (g *Gen) content(t *rapid.T, s *Step) {
	s.Size = g.size(t)
	s.Dist = rapid.IntRange(0, 3).Draw(t, "dist")
	if g.Markers {
		s.Dist = rapid.SampledFrom([]int{1, 3, 3}).Draw(t, "mdist")
		if s.Size > 0 && s.Size < 24 {
			s.Size = 24
		}
	}
	s.Seed = rapid.Uint64Range(0, 1<<20).Draw(t, "seed")
}

var accModes = []int{os.O_RDONLY, os.O_WRONLY, os.O_RDWR}

func (g *Gen) flags(t *rapid.T) int {
	f := rapid.SampledFrom(accModes).Draw(t, "acc")
	for _, b := range []int{os.O_CREATE, os.O_EXCL, os.O_TRUNC, os.O_APPEND} {
		if rapid.IntRange(0, 2).Draw(t, "flagbit") == 0 {
			f |= b
		}
	}
	return f
}

func (g *Gen) perm(t *rapid.T) uint32 {
	return uint32(rapid.SampledFrom([]int{0777, 0755, 0644, 0600, 0700, 0444, 0, 0123, 0666}).Draw(t, "perm"))
}

func (g *Gen) time(t *rapid.T, label string) int64 {
	if g.Markers {
		return rapid.SampledFrom(MarkerTimes).Draw(t, label+"_marker")*1e9 + 123456789
	}
	sec := rapid.Int64Range(0, 7258118400).Draw(t, label+"_s") // 1970..2200
	if rapid.IntRange(0, 7).Draw(t, label+"_edge") == 0 {
		// the edges of the usual representations: before the epoch, around 2038 and 2106
		sec = rapid.SampledFrom([]int64{-1, -86400, -2208988800, 0, 1, 1<<31 - 1, 1 << 31, 1<<32 - 1, 1 << 32}).Draw(t, label+"_edge_s")
	}
	ns := rapid.SampledFrom([]int64{0, 1, 999999999, 500000000, 123456789}).Draw(t, label+"_ns")
	return sec*1e9 + ns
}

func freeSlot(mr *MRunner) int {
	for i, h := range mr.Slots {
		if h == nil {
			return i
		}
	}
	return -1
}

func usedSlots(mr *MRunner) []int {
	var u []int
	for i, h := range mr.Slots {
		if h != nil {
			u = append(u, i)
		}
	}
	return u
}

// Draw one step. Steps that a guard steers away are redrawn (and counted).
// remember keeps the path-level calls of the case so that one of them can be issued again
// later (a call that is repeated after the state around it has changed).
func (g *Gen) remember(s Step) {
	switch s.Op {
	case "mkdir", "mkdirall", "remove", "removeall", "rename", "chmod", "chown", "chtimes", "stat", "list", "symlink":
		if len(g.past) < 64 {
			g.past = append(g.past, s)
		}
	}
}

func (g *Gen) Draw(t *rapid.T, mr *MRunner) Step {
	if len(g.past) > 0 && g.Repeat > 0 && rapid.IntRange(0, g.Repeat-1).Draw(t, "repeat-earlier-call") == 0 {
		s := g.past[rapid.IntRange(0, len(g.past)-1).Draw(t, "which")]
		if g.Avoid == nil || g.Avoid(s, mr) == "" {
			return s
		}
	}
	s := g.drawFresh(t, mr)
	if g.RelSpell > 0 {
		// the same entry under another spelling: relative to the root, or ./-anchored
		for _, pp := range []*string{&s.Path, &s.Path2} {
			if len(*pp) > 1 && (*pp)[0] == '/' && s.Op != "symlink" && !strings.HasPrefix(s.Op, "arch_") && rapid.IntRange(0, g.RelSpell-1).Draw(t, "respell") == 0 {
				*pp = rapid.SampledFrom([]string{"", "./"}).Draw(t, "spelling") + (*pp)[1:]
			}
		}
	}
	g.remember(s)
	return s
}

func (g *Gen) drawFresh(t *rapid.T, mr *MRunner) Step {
	for tries := 0; tries < 40; tries++ {
		s := g.draw1(t, mr)
		if s.Op == "" {
			continue
		}
		if g.Avoid != nil {
			if guard := g.Avoid(s, mr); guard != "" {
				g.Excluded[guard]++
				continue
			}
		}
		return s
	}
	return Step{Op: "stat", Path: "/"}
}

func (g *Gen) draw1(t *rapid.T, mr *MRunner) Step {
	m := mr.M
	op := rapid.SampledFrom(g.ops).Draw(t, "op")
	s := Step{Op: op}
	switch op {
	case "create":
		s.Slot = freeSlot(mr)
		if s.Slot < 0 {
			return g.closeStep(t, mr)
		}
		s.Path = g.anyPath(t, m)
	case "openfile":
		s.Slot = freeSlot(mr)
		if s.Slot < 0 {
			return g.closeStep(t, mr)
		}
		s.Path = g.anyPath(t, m)
		s.Flag = g.flags(t)
		s.Perm = g.perm(t)
	case "open":
		s.Slot = freeSlot(mr)
		if s.Slot < 0 {
			return g.closeStep(t, mr)
		}
		s.Path = g.anyPath(t, m)
	case "write", "writestring", "sync", "close", "read", "readat", "seek", "truncate", "writeat", "fstat":
		u := usedSlots(mr)
		if len(u) == 0 {
			return Step{}
		}
		s.Slot = rapid.SampledFrom(u).Draw(t, "slot")
		h := mr.Slots[s.Slot]
		size := h.Size()
		offs := []int64{0, 1, size - 1, size, size + 1, size / 2, -1, size + 700, 511, 512, 513}
		if rapid.IntRange(0, 5).Draw(t, "far-offset") == 0 {
			// gaps of whole I/O chunks, whole records and just beside them
			rec := int64(g.RS) * 512
			offs = []int64{size + 32768, size + 65536, size + 32767, 32768, 65536, size + rec, size + 2*rec, rec, 2 * rec, rec - 1, rec + 1}
			if op == "truncate" && g.HugeTruncates && g.RS >= 20 { // (tiny records and slow encoders make 8 MiB a matter of minutes)
				offs = append(offs, size+8<<20+1234) // far beyond any buffer or chunk size in sight
			}
		}
		switch op {
		case "write", "writestring":
			g.content(t, &s)
		case "writeat":
			g.content(t, &s)
			s.Off = rapid.SampledFrom(offs).Draw(t, "off")
		case "read":
			s.N = rapid.SampledFrom([]int{0, 1, 7, 512, int(size), int(size) + 1, 100}).Draw(t, "buf")
		case "readat":
			s.N = rapid.SampledFrom([]int{0, 1, 7, 512, int(size), int(size) + 1, 100}).Draw(t, "buf")
			s.Off = rapid.SampledFrom(offs).Draw(t, "off")
		case "seek":
			s.Whence = rapid.IntRange(0, 2).Draw(t, "whence")
			s.Off = rapid.SampledFrom(append(offs, -size, -size-1, -(size/2), -2)).Draw(t, "off")
		case "truncate":
			s.Off = rapid.SampledFrom(offs).Draw(t, "off")
		}
	case "mkdir", "mkdirall":
		s.Perm = g.perm(t)
		if op == "mkdirall" && rapid.Bool().Draw(t, "deep") {
			s.Path = path.Join(g.under(t, m), g.comp(t), g.comp(t))
		} else {
			s.Path = g.anyPath(t, m)
		}
	case "remove", "removeall", "stat", "chmod", "chown", "chtimes", "arch_delete", "arch_restore":
		s.Path = g.anyPath(t, m)
		if op == "removeall" || op == "arch_delete" {
			if p, ok := g.populated(t, m); ok && rapid.IntRange(0, 2).Draw(t, "populated-operand") == 0 {
				s.Path = p
			}
		}
		if (op == "chmod" || op == "chown" || op == "chtimes" || op == "stat") && rapid.IntRange(0, 11).Draw(t, "root-operand") == 0 {
			s.Path = "/" // the root directory is an entry with attributes of its own
		}
		s.Perm = g.perm(t)
		if op == "chown" {
			s.UID = rapid.SampledFrom([]int{0, 1, 1000, 65534, 2097151, 2097152, 1<<31 - 1}).Draw(t, "uid")
			s.GID = rapid.SampledFrom([]int{0, 1, 1000, 65534, 2097151, 2097152, 1<<31 - 1}).Draw(t, "gid")
			if g.Markers {
				s.UID = rapid.SampledFrom(MarkerUIDs).Draw(t, "muid")
				s.GID = rapid.SampledFrom(MarkerGIDs).Draw(t, "mgid")
			}
		}
		if op == "chtimes" {
			s.Atime = g.time(t, "atime")
			s.Mtime = g.time(t, "mtime")
		}
	case "list":
		s.Path = "/"
		if rapid.IntRange(0, 3).Draw(t, "listroot") > 0 {
			s.Path = g.anyPath(t, m)
		}
		s.N = rapid.SampledFrom([]int{-1, 0, 1, 2, 3, 5}).Draw(t, "count")
	case "rename", "arch_move":
		if p, ok := g.existing(t, m, ""); ok && rapid.IntRange(0, 9).Draw(t, "srcexists") < 8 {
			s.Path = p
		} else {
			s.Path = g.anyPath(t, m)
		}
		if p, ok := g.populated(t, m); ok && rapid.IntRange(0, 3).Draw(t, "populated-operand") == 0 {
			s.Path = p
		}
		s.Path2 = g.anyPath(t, m)
		if g.SuffixNames && rapid.Bool().Draw(t, "to-suffix-name") {
			// a file (preferably) gets a name that ends in the pipeline's suffix
			if p, ok := g.existing(t, m, "file"); ok {
				s.Path = p
			}
			s.Path2 = path.Join(pick(t, g.dirs(m), "dir"), g.suffixed)
		} else if rapid.IntRange(0, 9).Draw(t, "into-own-subtree") == 0 {
			s.Path2 = path.Join(s.Path, g.comp(t))
			if rapid.Bool().Draw(t, "deeper") {
				s.Path2 = path.Join(s.Path2, g.comp(t))
			}
		}
	case "symlink":
		s.Path = g.anyPath(t, m) // target
		s.Path2 = g.under(t, m)  // link
	case "reopen", "rebuild":
	case "arch_archive", "arch_update":
		k := rapid.IntRange(1, 4).Draw(t, "k")
		s.Replace = rapid.Bool().Draw(t, "replace")
		for i := 0; i < k; i++ {
			mb := Member{Perm: g.perm(t), Mtime: g.time(t, "mmtime")}
			if op == "arch_update" {
				if p, ok := g.existing(t, m, ""); ok {
					mb.Path = p
					mb.Kind = m.Nodes[p].Kind
				}
			}
			if mb.Path == "" {
				mb.Path = g.under(t, m)
				mb.Kind = rapid.SampledFrom([]string{"file", "file", "file", "dir"}).Draw(t, "mkind")
			}
			if mb.Kind == "file" {
				var c Step
				g.content(t, &c)
				mb.Size, mb.Dist, mb.Seed = c.Size, c.Dist, c.Seed
				if g.FailingSources > 0 && mb.Size > 0 && rapid.IntRange(0, g.FailingSources-1).Draw(t, "unreadable-source") == 0 {
					mb.FailOpen = true
				}
			}
			s.Members = append(s.Members, mb)
		}
	}
	return s
}

func (g *Gen) closeStep(t *rapid.T, mr *MRunner) Step {
	u := usedSlots(mr)
	return Step{Op: "close", Slot: rapid.SampledFrom(u).Draw(t, "slot")}
}

// PipelineSuffix is the suffix STFS appends to the tape name of a content record under cfg
// (internal/suffix); names that already end in it are the edge the indexer's stripping rule
// has to get right.
func PipelineSuffix(cfg world.Cfg) (comp, enc string) {
	switch cfg.Compression {
	case "gzip", "parallelgzip":
		comp = ".gz"
	case "lz4":
		comp = ".lz4"
	case "zstandard":
		comp = ".zst"
	case "brotli":
		comp = ".br"
	case "bzip2", "parallelbzip2":
		comp = ".bz2"
	}
	switch cfg.Encryption {
	case "age":
		enc = ".age"
	case "pgp":
		enc = ".pgp"
	}
	return
}

// SuffixComps are name components that end in the whole or a part of cfg's pipeline suffix,
// plus their common stem (so that the stripped name exists as a sibling).
func SuffixComps(cfg world.Cfg) []string {
	comp, enc := PipelineSuffix(cfg)
	if comp+enc == "" {
		return nil
	}
	out := []string{"s", "s" + comp + enc}
	if comp != "" && enc != "" {
		out = append(out, "s"+comp, "s"+enc)
	}
	return out
}

// WithSuffixNames makes a third of the cases under a pipeline with a suffix use names that
// end in (a part of) that suffix next to their stem: two of the case's components are
// replaced (or added when the case has fewer than three).
func (g *Gen) WithSuffixNames(t *rapid.T, cfg world.Cfg) *Gen {
	sc := SuffixComps(cfg)
	if len(sc) == 0 || rapid.IntRange(0, 2).Draw(t, "suffixnames") != 0 {
		return g
	}
	pick := []string{sc[0], sc[1+rapid.IntRange(0, len(sc)-2).Draw(t, "suffixname")]}
	if rapid.IntRange(0, 2).Draw(t, "suffix_nostem") == 0 {
		pick = pick[1:]
	}
	for i, n := range pick {
		if len(g.Comps) >= 3 {
			g.Comps[len(g.Comps)-1-i] = n
		} else {
			g.Comps = append(g.Comps, n)
		}
	}
	g.SuffixNames = true
	g.suffixed = pick[len(pick)-1]
	return g
}
