// Package hist: a case is data. Steps are drawn by rapid, journaled, and executed by the
// same Runner that replay uses.
package hist

import (
	"encoding/json"
	"fmt"
	"os"
	"strings"

	"verif/harness/world"
)

type Member struct {
	Path  string `json:"path"`
	Kind  string `json:"kind"` // file | dir | link
	Link  string `json:"link,omitempty"`
	Size  int    `json:"size,omitempty"`
	Dist  int    `json:"dist,omitempty"`
	Seed  uint64 `json:"seed,omitempty"`
	Perm  uint32 `json:"perm"`
	Mtime int64  `json:"mtime"`
	// FailOpen: the member's source cannot be opened (as a file the CLI may not read)
	FailOpen bool `json:"fail_open,omitempty"`
}

type Step struct {
	Op      string   `json:"op"`
	Path    string   `json:"path,omitempty"`
	Path2   string   `json:"path2,omitempty"`
	Slot    int      `json:"slot,omitempty"`
	Flag    int      `json:"flag,omitempty"`
	Perm    uint32   `json:"perm,omitempty"`
	UID     int      `json:"uid,omitempty"`
	GID     int      `json:"gid,omitempty"`
	Atime   int64    `json:"atime,omitempty"`
	Mtime   int64    `json:"mtime,omitempty"`
	Size    int      `json:"size,omitempty"`
	Dist    int      `json:"dist,omitempty"`
	Seed    uint64   `json:"seed,omitempty"`
	Off     int64    `json:"off,omitempty"`
	Whence  int      `json:"whence,omitempty"`
	N       int      `json:"n,omitempty"`
	Replace bool     `json:"replace,omitempty"`
	Members []Member `json:"members,omitempty"`
}

func FlagString(f int) string {
	var p []string
	switch f & (os.O_RDONLY | os.O_WRONLY | os.O_RDWR) {
	case os.O_RDONLY:
		p = append(p, "RDONLY")
	case os.O_WRONLY:
		p = append(p, "WRONLY")
	case os.O_RDWR:
		p = append(p, "RDWR")
	}
	for _, x := range []struct {
		b int
		n string
	}{{os.O_CREATE, "CREATE"}, {os.O_EXCL, "EXCL"}, {os.O_TRUNC, "TRUNC"}, {os.O_APPEND, "APPEND"}} {
		if f&x.b != 0 {
			p = append(p, x.n)
		}
	}
	return strings.Join(p, "|")
}

func (s Step) String() string {
	switch s.Op {
	case "openfile":
		return fmt.Sprintf("slot%d=OpenFile(%q,%s,%o)", s.Slot, s.Path, FlagString(s.Flag), s.Perm)
	case "create":
		return fmt.Sprintf("slot%d=Create(%q)", s.Slot, s.Path)
	case "open":
		return fmt.Sprintf("slot%d=Open(%q)", s.Slot, s.Path)
	case "write", "writestring":
		return fmt.Sprintf("slot%d.%s(%d bytes dist%d seed%d)", s.Slot, s.Op, s.Size, s.Dist, s.Seed)
	case "writeat":
		return fmt.Sprintf("slot%d.WriteAt(%d bytes, off %d)", s.Slot, s.Size, s.Off)
	case "read":
		return fmt.Sprintf("slot%d.Read(buf %d)", s.Slot, s.N)
	case "readat":
		return fmt.Sprintf("slot%d.ReadAt(buf %d, off %d)", s.Slot, s.N, s.Off)
	case "seek":
		return fmt.Sprintf("slot%d.Seek(%d, %d)", s.Slot, s.Off, s.Whence)
	case "truncate":
		return fmt.Sprintf("slot%d.Truncate(%d)", s.Slot, s.Off)
	case "close", "sync", "fstat":
		return fmt.Sprintf("slot%d.%s()", s.Slot, s.Op)
	case "rename", "symlink", "arch_move":
		return fmt.Sprintf("%s(%q,%q)", s.Op, s.Path, s.Path2)
	case "chmod", "mkdir", "mkdirall":
		return fmt.Sprintf("%s(%q,%o)", s.Op, s.Path, s.Perm)
	case "chown":
		return fmt.Sprintf("chown(%q,%d,%d)", s.Path, s.UID, s.GID)
	case "chtimes":
		return fmt.Sprintf("chtimes(%q,a=%d,m=%d)", s.Path, s.Atime, s.Mtime)
	case "list":
		return fmt.Sprintf("list(%q,%d)", s.Path, s.N)
	case "arch_archive", "arch_update":
		b, _ := json.Marshal(s.Members)
		return fmt.Sprintf("%s(replace=%v,%s)", s.Op, s.Replace, b)
	}
	return fmt.Sprintf("%s(%q)", s.Op, s.Path)
}

// Case is the journaled form of a whole case.
type Case struct {
	Property string    `json:"property"`
	Cfg      world.Cfg `json:"cfg"`
	Params   Params    `json:"params,omitempty"`
	Steps    []Step    `json:"steps"`
	Fail     string    `json:"fail,omitempty"`
	// Guards: the VERIF_GUARDS value of the run that generated the case ("" for hand-written
	// repros of findings, which must fail unguarded)
	Guards string `json:"guards,omitempty"`
}

// Params are per-case parameters outside the step list (kept generic on purpose).
type Params map[string]interface{}

// Bytes produces the content described by (size, dist, seed), deterministically.
func Bytes(size, dist int, seed uint64) []byte {
	b := make([]byte, size)
	switch dist {
	case 0: // zeros
	case 1: // incompressible pseudo-random bytes
		x := seed*2862933555777941757 + 3037000493
		for i := range b {
			x ^= x << 13
			x ^= x >> 7
			x ^= x << 17
			b[i] = byte(x >> 24)
		}
	case 2: // text
		words := []string{"the ", "tape ", "index ", "record ", "block\n", "stfs ", "αβγ ", "0123456789 "}
		x := seed + 1
		i := 0
		for i < size {
			x = x*6364136223846793005 + 1442695040888963407
			w := words[(x>>33)%uint64(len(words))]
			i += copy(b[i:], w)
		}
	default: // a marker repeated
		m := fmt.Sprintf("<M%016x>", seed)
		for i := 0; i < size; i += len(m) {
			copy(b[i:], m)
		}
	}
	return b
}

// LoadCase reads a journal / replay file: first line header, then steps, optional fail.
func LoadCase(path string) (*Case, error) {
	raw, err := os.ReadFile(path)
	if err != nil {
		return nil, err
	}
	c := &Case{}
	first := true
	for _, ln := range strings.Split(string(raw), "\n") {
		ln = strings.TrimSpace(ln)
		if ln == "" {
			continue
		}
		if first {
			first = false
			if err := json.Unmarshal([]byte(ln), c); err != nil {
				return nil, err
			}
			continue
		}
		var probe map[string]json.RawMessage
		if err := json.Unmarshal([]byte(ln), &probe); err != nil {
			return nil, err
		}
		if f, ok := probe["fail"]; ok {
			_ = json.Unmarshal(f, &c.Fail)
			continue
		}
		if pm, ok := probe["param"]; ok {
			// a parameter recorded while the case ran (e.g. the random key bytes that failed)
			var kv map[string]interface{}
			if json.Unmarshal(pm, &kv) == nil {
				if c.Params == nil {
					c.Params = Params{}
				}
				for k, v := range kv {
					c.Params[k] = v
				}
			}
			continue
		}
		if _, ok := probe["op"]; !ok {
			continue
		}
		var s Step
		if err := json.Unmarshal([]byte(ln), &s); err != nil {
			return nil, err
		}
		c.Steps = append(c.Steps, s)
	}
	return c, nil
}
