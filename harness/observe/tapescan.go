package observe

import (
	"archive/tar"
	"bytes"
	"crypto/sha256"
	"encoding/base64"
	"encoding/hex"
	"fmt"
	"io"
	"strconv"
	"strings"
)

// Member is one tar member found by the independent scanner.
type Member struct {
	Off     int64 // byte offset of the first header block of the member (PAX ext header if any)
	DataOff int64
	End     int64 // offset just after the padded body
	Record  int64
	Block   int64
	Hdr     *tar.Header
	PAX     map[string]string
	Format  tar.Format
	BodySHA string
	Body    []byte
}

// Archive is one tar archive (members followed by a trailer).
type Archive struct {
	Start, End int64 // End is after the trailer
	Members    []Member
}

type Scan struct {
	Members  []Member
	Archives []Archive
	Problems []string
	Len      int64
}

type offReader struct {
	r   *bytes.Reader
	off int64
}

func (o *offReader) Read(p []byte) (int, error) {
	n, err := o.r.Read(p)
	o.off += int64(n)
	return n, err
}

func isZero(b []byte) bool {
	for _, c := range b {
		if c != 0 {
			return false
		}
	}
	return true
}

// TapeScan iterates a raw drive image with archive/tar used as a standard reader with
// ignore-zeros semantics: a new tar.Reader is started after every trailer. It shares no
// code with pkg/recovery. keepBody keeps member bodies up to 1 MiB.
func TapeScan(raw []byte, recordSize int, keepBody bool) *Scan {
	s := &Scan{Len: int64(len(raw))}
	if len(raw)%512 != 0 {
		s.Problems = append(s.Problems, fmt.Sprintf("length %d is not a multiple of 512", len(raw)))
	}
	pos := int64(0)
	n := int64(len(raw))
	for pos+512 <= n {
		if isZero(raw[pos : pos+512]) {
			pos += 512
			continue
		}
		or := &offReader{r: bytes.NewReader(raw[pos:])}
		tr := tar.NewReader(or)
		arch := Archive{Start: pos}
		base := pos
		memberStart := int64(0)
		bad := false
		for {
			hdr, err := tr.Next()
			if err == io.EOF {
				break
			}
			if err != nil {
				s.Problems = append(s.Problems, fmt.Sprintf("offset %d: %v", base+memberStart, err))
				bad = true
				break
			}
			dataOff := or.off
			body, err := io.ReadAll(tr)
			if err != nil {
				s.Problems = append(s.Problems, fmt.Sprintf("offset %d body: %v", base+memberStart, err))
				bad = true
				break
			}
			sum := sha256.Sum256(body)
			padded := (int64(len(body)) + 511) / 512 * 512
			m := Member{Off: base + memberStart, DataOff: base + dataOff, End: base + dataOff + padded, Hdr: hdr, PAX: hdr.PAXRecords, Format: hdr.Format, BodySHA: hex.EncodeToString(sum[:8])}
			if keepBody && len(body) <= 1<<20 {
				m.Body = body
			}
			blk := m.Off / 512
			m.Record, m.Block = blk/int64(recordSize), blk%int64(recordSize)
			arch.Members = append(arch.Members, m)
			s.Members = append(s.Members, m)
			memberStart = dataOff + padded
		}
		if bad {
			// resynchronise on the next 512 boundary after the last good member
			pos = base + memberStart + 512
			continue
		}
		// after io.EOF the reader consumed the two zero blocks of the trailer
		end := base + memberStart + 1024
		if end > n {
			end = n
		}
		arch.End = end
		s.Archives = append(s.Archives, arch)
		pos = end
	}
	return s
}

// Starts returns the set of member start offsets.
func (s *Scan) Starts() map[int64]int {
	m := map[int64]int{}
	for i, x := range s.Members {
		m[x.Off] = i
	}
	return m
}

func (s *Scan) AtRB(record, block int64, recordSize int) (Member, bool) {
	off := (record*int64(recordSize) + block) * 512
	for _, m := range s.Members {
		if m.Off == off {
			return m, true
		}
	}
	return Member{}, false
}

// RawSearch looks for each marker in the clear and in common encodings.
func RawSearch(raw []byte, markers []string) []string {
	var found []string
	for _, m := range markers {
		if m == "" {
			continue
		}
		variants := map[string][]byte{"raw": []byte(m), "hex": []byte(hex.EncodeToString([]byte(m))), "HEX": []byte(strings.ToUpper(hex.EncodeToString([]byte(m))))}
		// base64 of the marker at the three alignments: encode with 0,1,2 bytes of
		// prefix and keep the part that depends only on the marker
		for shift := 0; shift < 3; shift++ {
			for ai, enc := range []*base64.Encoding{base64.StdEncoding, base64.URLEncoding} {
				if len(m) < 8 {
					continue
				}
				padded := append(bytes.Repeat([]byte{0}, shift), []byte(m)...)
				e := enc.EncodeToString(padded)
				// drop the characters influenced by the prefix and by the tail
				startc := 0
				if shift > 0 {
					startc = 4
				}
				endc := (len(padded) / 3) * 4
				if endc-startc >= 8 {
					variants[fmt.Sprintf("b64/%d/%d", ai, shift)] = []byte(e[startc:endc])
				}
			}
		}
		for k, v := range variants {
			if len(v) >= 4 && bytes.Contains(raw, v) {
				found = append(found, fmt.Sprintf("%q as %s", m, k))
			}
		}
	}
	return found
}

func NumberForms(v int64) []string {
	return []string{strconv.FormatInt(v, 10), strconv.FormatInt(v, 8)}
}
