// Package observe: observers that are independent of the code paths they judge.
package observe

import (
	"crypto/sha256"
	"encoding/hex"
	"fmt"
	"io"
	"os"
	"path"
	"sort"
	"strings"

	stfs "github.com/pojntfx/stfs/pkg/fs"
	"github.com/spf13/afero"
)

type Entry struct {
	Path    string `json:"path"`
	Kind    string `json:"kind"` // dir | file | link
	Size    int64  `json:"size"`
	Perm    uint32 `json:"perm"`
	UID     int    `json:"uid"`
	GID     int    `json:"gid"`
	Mtime   int64  `json:"mtime"`
	Atime   int64  `json:"atime"`
	Ctime   int64  `json:"ctime"`
	Link    string `json:"link,omitempty"`
	SHA     string `json:"sha,omitempty"`
	Len     int64  `json:"len"`
	ReadErr string `json:"read_err,omitempty"`
	Note    string `json:"note,omitempty"`
	Content []byte `json:"-"`
}

type Snap struct {
	Entries []Entry
	Errs    []string // structural problems seen while walking (duplicates, stat failures)
}

type Fs interface {
	afero.Fs
	LstatIfPossible(name string) (os.FileInfo, bool, error)
	ReadlinkIfPossible(name string) (string, error)
}

// Caller runs one call into the system under test (through the watchdog).
type Caller func(name string, f func()) error

func direct(name string, f func()) error { f(); return nil }

func Clean(p string) string { return path.Clean("/" + p) }

func infoEntry(p string, fi os.FileInfo) Entry {
	e := Entry{Path: p, Size: fi.Size(), Perm: uint32(fi.Mode().Perm()), Mtime: fi.ModTime().UnixNano()}
	switch {
	case fi.IsDir():
		e.Kind = "dir"
	case fi.Mode()&os.ModeSymlink != 0:
		e.Kind = "link"
	default:
		e.Kind = "file"
	}
	if st, ok := fi.Sys().(*stfs.Stat); ok && st != nil {
		e.UID, e.GID = int(st.Uid), int(st.Gid)
		e.Atime = st.Atim.Nano()
		e.Ctime = st.Ctim.Nano()
	}
	return e
}

// ReadAll reads a file through a fresh handle until EOF (never leaves a half-read stream
// behind) and closes the handle.
func ReadAll(call Caller, f Fs, p string) (data []byte, err error) {
	if call == nil {
		call = direct
	}
	var h afero.File
	if e := call("Open "+p, func() { h, err = f.Open(p) }); e != nil {
		return nil, e
	}
	if err != nil {
		return nil, err
	}
	var rerr error
	buf := make([]byte, 64*1024)
	for i := 0; i < 1<<16; i++ {
		var n int
		var e2 error
		if e := call("Read "+p, func() { n, e2 = h.Read(buf) }); e != nil {
			return data, e
		}
		if n > 0 {
			data = append(data, buf[:n]...)
		}
		if e2 == io.EOF {
			break
		}
		if e2 != nil {
			rerr = e2
			break
		}
		if n == 0 {
			rerr = fmt.Errorf("read returned 0, nil")
			break
		}
	}
	var cerr error
	if e := call("Close "+p, func() { cerr = h.Close() }); e != nil {
		return data, e
	}
	if rerr != nil {
		return data, rerr
	}
	return data, cerr
}

// Snapshot walks the tree from the root by listing directories and records what a user
// can observe of every entry. It returns a non-nil error only for a watchdog verdict.
func Snapshot(call Caller, f Fs, withContent bool) (*Snap, error) {
	if call == nil {
		call = direct
	}
	s := &Snap{}
	seen := map[string]bool{}
	var rootInfo os.FileInfo
	var rerr error
	if e := call("Stat /", func() { rootInfo, rerr = f.Stat("/") }); e != nil {
		return nil, e
	}
	if rerr != nil {
		s.Errs = append(s.Errs, "stat /: "+rerr.Error())
		return s, nil
	}
	re := infoEntry("/", rootInfo)
	s.Entries = append(s.Entries, re)
	seen["/"] = true
	queue := []string{"/"}
	for len(queue) > 0 && len(s.Entries) < 5000 {
		dir := queue[0]
		queue = queue[1:]
		var h afero.File
		var err error
		if e := call("Open "+dir, func() { h, err = f.Open(dir) }); e != nil {
			return nil, e
		}
		if err != nil {
			s.Errs = append(s.Errs, "open dir "+dir+": "+err.Error())
			continue
		}
		var infos []os.FileInfo
		if e := call("Readdir "+dir, func() { infos, err = h.Readdir(-1) }); e != nil {
			return nil, e
		}
		if e := call("Close "+dir, func() { _ = h.Close() }); e != nil {
			return nil, e
		}
		if err != nil {
			s.Errs = append(s.Errs, "readdir "+dir+": "+err.Error())
			continue
		}
		for _, li := range infos {
			name := li.Name()
			p := Clean(path.Join(dir, name))
			if name == "" || name == "." || name == "/" || strings.Contains(name, "/") {
				s.Errs = append(s.Errs, fmt.Sprintf("listing of %s contains improper name %q", dir, name))
				continue
			}
			if seen[p] {
				s.Errs = append(s.Errs, fmt.Sprintf("listing of %s contains %q twice", dir, name))
				continue
			}
			seen[p] = true
			var fi os.FileInfo
			if e := call("Stat "+p, func() { fi, err = f.Stat(p) }); e != nil {
				return nil, e
			}
			if err != nil {
				s.Errs = append(s.Errs, fmt.Sprintf("listed %s does not stat: %v", p, err))
				continue
			}
			en := infoEntry(p, fi)
			li2 := infoEntry(p, li)
			if li2.Kind != en.Kind || li2.Size != en.Size || li2.Perm != en.Perm || li2.Mtime != en.Mtime || li2.UID != en.UID || li2.GID != en.GID {
				en.Note = fmt.Sprintf("listing says %s/%d/%o/%d/%d:%d", li2.Kind, li2.Size, li2.Perm, li2.Mtime, li2.UID, li2.GID)
			}
			var target string
			var lerr error
			if e := call("Readlink "+p, func() { target, lerr = f.ReadlinkIfPossible(p) }); e != nil {
				return nil, e
			}
			isLink := lerr == nil && target != ""
			if isLink {
				en.Link = target
			}
			if en.Kind == "dir" && !isLink {
				queue = append(queue, p)
			}
			if en.Kind == "file" && withContent {
				data, err := ReadAll(call, f, p)
				if _, hang := err.(*HangError); hang {
					return nil, err
				}
				if err != nil {
					en.ReadErr = "error"
					en.Note += " read: " + err.Error()
				}
				sum := sha256.Sum256(data)
				en.SHA = hex.EncodeToString(sum[:8])
				en.Len = int64(len(data))
				en.Content = data
			}
			s.Entries = append(s.Entries, en)
		}
	}
	sort.Slice(s.Entries, func(i, j int) bool { return s.Entries[i].Path < s.Entries[j].Path })
	return s, nil
}

// HangError is returned by a Caller when the watchdog gave a verdict.
type HangError struct {
	Verdict int
	Detail  string
}

func (h *HangError) Error() string { return h.Detail }

func (e Entry) key(withTimes bool) string {
	s := fmt.Sprintf("%s %s size=%d perm=%o uid=%d gid=%d link=%q sha=%s len=%d rerr=%s", e.Path, e.Kind, e.Size, e.Perm, e.UID, e.GID, e.Link, e.SHA, e.Len, e.ReadErr)
	if withTimes {
		s += fmt.Sprintf(" mtime=%d atime=%d ctime=%d", e.Mtime, e.Atime, e.Ctime)
	}
	return s
}

// Diff lists the differences between two snapshots ("" if none).
func Diff(an string, a *Snap, bn string, b *Snap, withTimes bool) string {
	var out []string
	am := map[string]Entry{}
	for _, e := range a.Entries {
		am[e.Path] = e
	}
	bm := map[string]Entry{}
	for _, e := range b.Entries {
		bm[e.Path] = e
		if ae, ok := am[e.Path]; !ok {
			out = append(out, fmt.Sprintf("only in %s: %s", bn, e.key(withTimes)))
		} else if ae.key(withTimes) != e.key(withTimes) {
			out = append(out, fmt.Sprintf("differs:\n    %s: %s\n    %s: %s", an, ae.key(withTimes), bn, e.key(withTimes)))
		}
	}
	for _, e := range a.Entries {
		if _, ok := bm[e.Path]; !ok {
			out = append(out, fmt.Sprintf("only in %s: %s", an, e.key(withTimes)))
		}
	}
	if len(a.Errs) != len(b.Errs) || strings.Join(a.Errs, ";") != strings.Join(b.Errs, ";") {
		out = append(out, fmt.Sprintf("walk problems: %s=%v %s=%v", an, a.Errs, bn, b.Errs))
	}
	sort.Strings(out)
	if len(out) > 12 {
		out = append(out[:12], fmt.Sprintf("... %d more", len(out)-12))
	}
	return strings.Join(out, "\n")
}

func (s *Snap) Get(p string) (Entry, bool) {
	for _, e := range s.Entries {
		if e.Path == p {
			return e, true
		}
	}
	return Entry{}, false
}
