package observe

import (
	"database/sql"
	"fmt"
	"sort"
	"strings"
)

type Row struct {
	Record, LastRecord, Block, LastBlock, Deleted, Typeflag int64
	Name, Linkname                                          string
	Size, Mode, UID, GID                                    int64
	Modtime, Accesstime, Changetime                         string
	Pax                                                     string
}

func (r Row) String() string {
	return fmt.Sprintf("%q|%q del=%d type=%d rec=%d blk=%d lrec=%d lblk=%d size=%d mode=%o uid=%d gid=%d mt=%s at=%s ct=%s pax=%s",
		r.Name, r.Linkname, r.Deleted, r.Typeflag, r.Record, r.Block, r.LastRecord, r.LastBlock, r.Size, r.Mode, r.UID, r.GID, r.Modtime, r.Accesstime, r.Changetime, r.Pax)
}

// IndexDump reads every row (tombstones included) through a second connection.
func IndexDump(dbPath string) ([]Row, error) {
	db, err := sql.Open("sqlite", "file:"+dbPath+"?mode=ro")
	if err != nil {
		return nil, err
	}
	defer db.Close()
	rows, err := db.Query(`select record,lastknownrecord,block,lastknownblock,deleted,typeflag,name,linkname,size,mode,uid,gid,cast(modtime as text),cast(accesstime as text),cast(changetime as text),paxrecords from headers`)
	if err != nil {
		if strings.Contains(err.Error(), "no such table") {
			return nil, nil
		}
		return nil, err
	}
	defer rows.Close()
	var out []Row
	for rows.Next() {
		var r Row
		if err := rows.Scan(&r.Record, &r.LastRecord, &r.Block, &r.LastBlock, &r.Deleted, &r.Typeflag, &r.Name, &r.Linkname, &r.Size, &r.Mode, &r.UID, &r.GID, &r.Modtime, &r.Accesstime, &r.Changetime, &r.Pax); err != nil {
			return nil, err
		}
		out = append(out, r)
	}
	sort.Slice(out, func(i, j int) bool {
		if out[i].Name != out[j].Name {
			return out[i].Name < out[j].Name
		}
		return out[i].Linkname < out[j].Linkname
	})
	return out, rows.Err()
}

func DumpString(rows []Row) string {
	var b strings.Builder
	for _, r := range rows {
		b.WriteString(r.String())
		b.WriteByte('\n')
	}
	return b.String()
}
