package world

import (
	"context"
	"errors"
	"io"
	"sync"

	"github.com/pojntfx/stfs/pkg/cache"
	"github.com/pojntfx/stfs/pkg/config"
)

// Seams at which a Probe counts interactions and can inject one fault.
const (
	SeamDriveWrite  = "drive_write"
	SeamDriveRead   = "drive_read"
	SeamOpenWriter  = "open_writer"
	SeamOpenReader  = "open_reader"
	SeamCloseReader = "close_reader"
	SeamCloseWriter = "close_writer"
	SeamMeta        = "index_store"
	SeamCacheRead   = "source_read"
)

var Seams = []string{SeamDriveWrite, SeamDriveRead, SeamOpenWriter, SeamOpenReader, SeamMeta, SeamCacheRead}

var ErrInjected = errors.New("verif: injected fault")

// Probe counts interactions per seam and fails the K-th interaction of one seam.
// In pass-through mode (FailSeam == "") the wrappers are observationally inert.
type Probe struct {
	mu       sync.Mutex
	Counts   map[string]int
	FailSeam string
	FailK    int  // 1-based
	Short    bool // drive_write only: write half of the buffer, then fail
	Persist  bool // every interaction of the seam from the K-th on fails (a dead medium)
	Fired    bool
	Writes   []int // length of every drive write since Reset
	Yield    func(seam string)
}

func (p *Probe) Reset() {
	p.mu.Lock()
	p.Counts = map[string]int{}
	p.FailSeam, p.FailK, p.Fired, p.Short = "", 0, false, false
	p.Writes = nil
	p.mu.Unlock()
}

func (p *Probe) Arm(seam string, k int, short bool) {
	p.mu.Lock()
	p.Counts = map[string]int{}
	p.FailSeam, p.FailK, p.Fired, p.Short, p.Persist = seam, k, false, short, false
	p.Writes = nil
	p.mu.Unlock()
}

// ArmPersistent fails every interaction of the seam from the k-th on.
func (p *Probe) ArmPersistent(seam string, k int) {
	p.Arm(seam, k, false)
	p.mu.Lock()
	p.Persist = true
	p.mu.Unlock()
}

func (p *Probe) Disarm() {
	p.mu.Lock()
	p.FailSeam, p.FailK, p.Persist = "", 0, false
	p.mu.Unlock()
}

func (p *Probe) Snapshot() (map[string]int, []int, bool) {
	p.mu.Lock()
	defer p.mu.Unlock()
	c := map[string]int{}
	for k, v := range p.Counts {
		c[k] = v
	}
	return c, append([]int(nil), p.Writes...), p.Fired
}

// yield is a seam without fault injection: schedule perturbation only.
func (p *Probe) yield(seam string) {
	if p == nil {
		return
	}
	if y := p.Yield; y != nil {
		y(seam)
	}
}

func (p *Probe) hit(seam string) error {
	if p == nil {
		return nil
	}
	if y := p.Yield; y != nil {
		y(seam)
	}
	p.mu.Lock()
	defer p.mu.Unlock()
	if p.Counts == nil {
		p.Counts = map[string]int{}
	}
	p.Counts[seam]++
	if p.FailSeam == seam && p.Counts[seam] == p.FailK && !p.Fired {
		p.Fired = true
		return ErrInjected
	}
	if p.FailSeam == seam && p.Persist && p.Fired && p.Counts[seam] > p.FailK {
		return ErrInjected
	}
	return nil
}

type probeWriter struct {
	w io.Writer
	p *Probe
}

func (w *probeWriter) Write(b []byte) (int, error) {
	if err := w.p.hit(SeamDriveWrite); err != nil {
		if w.p.Short && len(b) > 1 {
			n, _ := w.w.Write(b[:len(b)/2])
			return n, err
		}
		return 0, err
	}
	n, err := w.w.Write(b)
	w.p.mu.Lock()
	w.p.Writes = append(w.p.Writes, n)
	w.p.mu.Unlock()
	return n, err
}

type probeReader struct {
	r config.ReadSeekFder
	p *Probe
}

func (r *probeReader) Read(b []byte) (int, error) {
	if err := r.p.hit(SeamDriveRead); err != nil {
		return 0, err
	}
	return r.r.Read(b)
}
func (r *probeReader) Seek(o int64, wh int) (int64, error) {
	if r.p.persistent() {
		// a dead medium: every Read fails, positioning still works
		return r.r.Seek(o, wh)
	}
	if err := r.p.hit(SeamDriveRead); err != nil {
		return 0, err
	}
	return r.r.Seek(o, wh)
}

func (p *Probe) persistent() bool {
	p.mu.Lock()
	defer p.mu.Unlock()
	return p.Persist && p.Fired
}
func (r *probeReader) Fd() uintptr { return r.r.Fd() }

type probeCache struct {
	cache.WriteCache
	p *Probe
}

func (c *probeCache) Read(b []byte) (int, error) {
	if err := c.p.hit(SeamCacheRead); err != nil {
		return 0, err
	}
	return c.WriteCache.Read(b)
}

// probeMeta delegates every call of config.MetadataPersister.
type probeMeta struct {
	inner config.MetadataPersister
	p     *Probe
}

func (m *probeMeta) UpsertHeader(ctx context.Context, h *config.Header, init bool) error {
	if err := m.p.hit(SeamMeta); err != nil {
		return err
	}
	return m.inner.UpsertHeader(ctx, h, init)
}
func (m *probeMeta) UpdateHeaderMetadata(ctx context.Context, h *config.Header) error {
	if err := m.p.hit(SeamMeta); err != nil {
		return err
	}
	return m.inner.UpdateHeaderMetadata(ctx, h)
}
func (m *probeMeta) MoveHeader(ctx context.Context, o, n string, r, b int64) error {
	if err := m.p.hit(SeamMeta); err != nil {
		return err
	}
	return m.inner.MoveHeader(ctx, o, n, r, b)
}
func (m *probeMeta) GetHeaders(ctx context.Context) ([]*config.Header, error) {
	if err := m.p.hit(SeamMeta); err != nil {
		return nil, err
	}
	return m.inner.GetHeaders(ctx)
}
func (m *probeMeta) GetHeader(ctx context.Context, n string) (*config.Header, error) {
	if err := m.p.hit(SeamMeta); err != nil {
		return nil, err
	}
	return m.inner.GetHeader(ctx, n)
}
func (m *probeMeta) GetHeaderByLinkname(ctx context.Context, n string) (*config.Header, error) {
	if err := m.p.hit(SeamMeta); err != nil {
		return nil, err
	}
	return m.inner.GetHeaderByLinkname(ctx, n)
}
func (m *probeMeta) GetHeaderChildren(ctx context.Context, n string) ([]*config.Header, error) {
	if err := m.p.hit(SeamMeta); err != nil {
		return nil, err
	}
	return m.inner.GetHeaderChildren(ctx, n)
}
func (m *probeMeta) GetRootPath(ctx context.Context) (string, error) {
	if err := m.p.hit(SeamMeta); err != nil {
		return "", err
	}
	return m.inner.GetRootPath(ctx)
}
func (m *probeMeta) GetHeaderDirectChildren(ctx context.Context, n string, l int) ([]*config.Header, error) {
	if err := m.p.hit(SeamMeta); err != nil {
		return nil, err
	}
	return m.inner.GetHeaderDirectChildren(ctx, n, l)
}
func (m *probeMeta) DeleteHeader(ctx context.Context, n string, r, b int64) (*config.Header, error) {
	if err := m.p.hit(SeamMeta); err != nil {
		return nil, err
	}
	return m.inner.DeleteHeader(ctx, n, r, b)
}
func (m *probeMeta) GetLastIndexedRecordAndBlock(ctx context.Context, rs int) (int64, int64, error) {
	if err := m.p.hit(SeamMeta); err != nil {
		return 0, 0, err
	}
	return m.inner.GetLastIndexedRecordAndBlock(ctx, rs)
}
func (m *probeMeta) PurgeAllHeaders(ctx context.Context) error {
	if err := m.p.hit(SeamMeta); err != nil {
		return err
	}
	return m.inner.PurgeAllHeaders(ctx)
}
