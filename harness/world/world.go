// Package world assembles an STFS instance exactly the way pkg/fs/filesystem_test.go
// (createSTFS) and cmd/stfs/cmd/serve_*.go do, with every seam wrapped by a Probe.
package world

import (
	"archive/tar"
	"context"
	"database/sql"
	"fmt"
	"github.com/ProtonMail/go-crypto/openpgp"
	"io"
	"os"
	"path/filepath"
	"reflect"
	"sync"
	"unsafe"

	golog "github.com/fclairamb/go-log"
	"github.com/pojntfx/stfs/pkg/cache"
	"github.com/pojntfx/stfs/pkg/config"
	"github.com/pojntfx/stfs/pkg/encryption"
	"github.com/pojntfx/stfs/pkg/fs"
	"github.com/pojntfx/stfs/pkg/mtio"
	"github.com/pojntfx/stfs/pkg/operations"
	"github.com/pojntfx/stfs/pkg/persisters"
	"github.com/pojntfx/stfs/pkg/recovery"
	"github.com/pojntfx/stfs/pkg/signature"
	"github.com/pojntfx/stfs/pkg/tape"
)

// Cfg is the pipeline configuration of one instance. It is part of every journaled case.
type Cfg struct {
	Compression string `json:"compression"`
	Level       string `json:"level"`
	Encryption  string `json:"encryption"`
	Signature   string `json:"signature"`
	RecordSize  int    `json:"record_size"`
	WriteCache  string `json:"write_cache"`
	WPIR        bool   `json:"write_perm_implies_read_perm,omitempty"`
}

func (c Cfg) String() string {
	n := func(s string) string {
		if s == "" {
			return "none"
		}
		return s
	}
	return fmt.Sprintf("%s/%s/%s/%s/rs%d/%s", n(c.Compression), c.Level, n(c.Encryption), n(c.Signature), c.RecordSize, c.WriteCache)
}

func (c Cfg) Pipes() config.PipeConfig {
	return config.PipeConfig{Compression: c.Compression, Encryption: c.Encryption, Signature: c.Signature, RecordSize: c.RecordSize}
}

// Plain reports whether content is stored verbatim on the tape.
func (c Cfg) Plain() bool { return c.Compression == "" && c.Encryption == "" }

type nopLogger struct{}

func (nopLogger) Trace(string, ...interface{})       {}
func (nopLogger) Debug(string, ...interface{})       {}
func (nopLogger) Info(string, ...interface{})        {}
func (nopLogger) Warn(string, ...interface{})        {}
func (nopLogger) Error(string, ...interface{})       {}
func (nopLogger) Panic(string, ...interface{})       {}
func (l nopLogger) With(...interface{}) golog.Logger { return l }

// Opts selects how the world is put together.
type Opts struct {
	// StrangerSig: signatures are verified with the stranger's public key (decryption keys stay the owner's)
	StrangerSig bool
	// EmptySigKeyring: (pgp) signatures are verified against a keyring that holds no key
	EmptySigKeyring bool
	Dir             string // scratch directory owned by the caller
	Drive           string // path of the drive file (default Dir/drive.tar)
	DB              string // path of the sqlite index (default Dir/index.sqlite)
	ReadOnly        bool
	NilWrite        bool // read-only the way `serve http` builds it: writeOps=nil, getFileBuffer=nil
	Stranger        bool // use the stranger's private halves for reading (C08/C09)
	NoInit          bool // do not call Initialize
	// Overwrite builds the tape manager the way `stfs operation initialize` and
	// `operation archive --overwrite` do: the first writer starts the tape over.
	Overwrite bool
	// TapeLikeWriter reports the drive as non-regular to the write path (record-sized
	// buffered writes, padding to whole records, tape codec parameters) while reads still
	// treat it as the regular file it is.
	TapeLikeWriter bool
	Probe          *Probe
	OnHeader       func(*config.HeaderEvent) // write-side header events
}

type World struct {
	Cfg   Cfg
	Opts  Opts
	Drive string
	DB    string

	TM       *tape.TapeManager
	MP       *persisters.MetadataPersister
	Meta     config.MetadataPersister
	Backend  config.BackendConfig
	ReadOps  *operations.Operations
	WriteOps *operations.Operations
	FS       *fs.STFS
	Probe    *Probe
	Root     string
	InitErr  error

	ReadCrypto  config.CryptoConfig
	WriteCrypto config.CryptoConfig

	closed bool
}

// New builds a world. It never fails on Initialize errors: they are kept in InitErr so
// that properties which allow a failing Initialize (C16) can look at them.
func New(cfg Cfg, o Opts) (*World, error) {
	if o.Drive == "" {
		o.Drive = filepath.Join(o.Dir, "drv", "drive.tar")
	}
	_ = os.MkdirAll(filepath.Dir(o.Drive), 0700)
	if o.DB == "" {
		o.DB = filepath.Join(o.Dir, "index.sqlite")
	}
	if o.Probe == nil {
		o.Probe = &Probe{}
	}
	w := &World{Cfg: cfg, Opts: o, Drive: o.Drive, DB: o.DB, Probe: o.Probe}

	mt := mtio.MagneticTapeIO{}
	w.TM = tape.NewTapeManager(o.Drive, mt, cfg.RecordSize, o.Overwrite)
	w.MP = persisters.NewMetadataPersister(o.DB)
	if err := w.MP.Open(); err != nil {
		return nil, fmt.Errorf("persister open: %w", err)
	}
	w.Meta = &probeMeta{inner: w.MP, p: o.Probe}

	w.Backend = config.BackendConfig{
		GetWriter: func() (config.DriveWriterConfig, error) {
			if err := o.Probe.hit(SeamOpenWriter); err != nil {
				return w.vanished(func() error { _, e := w.TM.GetWriter(); return e })
			}
			dw, err := w.TM.GetWriter()
			if err != nil {
				return dw, err
			}
			dw.Drive = &probeWriter{w: dw.Drive, p: o.Probe}
			if o.TapeLikeWriter {
				dw.DriveIsRegular = false
			}
			return dw, nil
		},
		CloseWriter: func() error { o.Probe.yield(SeamCloseWriter); return w.TM.Close() },
		GetReader: func() (config.DriveReaderConfig, error) {
			if err := o.Probe.hit(SeamOpenReader); err != nil {
				var dr config.DriveReaderConfig
				_, e := w.vanished(func() error { _, e := w.TM.GetReader(); return e })
				return dr, e
			}
			dr, err := w.TM.GetReader()
			if err != nil {
				return dr, err
			}
			dr.Drive = &probeReader{r: dr.Drive, p: o.Probe}
			return dr, nil
		},
		CloseReader:    func() error { o.Probe.yield(SeamCloseReader); return w.TM.Close() },
		MagneticTapeIO: mt,
	}

	ks := Owner()
	rk := ks
	if o.Stranger {
		rk = Stranger()
	}
	w.ReadCrypto = config.CryptoConfig{Recipient: rk.SigRecipient(cfg.Signature), Identity: rk.EncIdentity(cfg.Encryption)}
	if o.EmptySigKeyring && cfg.Signature == "pgp" {
		// what parsing an empty public key file yields: a keyring without any key
		w.ReadCrypto.Recipient = openpgp.EntityList{}
	}
	if o.StrangerSig {
		// the reader can decrypt, but verifies against another writer's public key
		w.ReadCrypto.Recipient = Stranger().SigRecipient(cfg.Signature)
	}
	w.WriteCrypto = config.CryptoConfig{Recipient: ks.EncRecipient(cfg.Encryption), Identity: ks.SigIdentity(cfg.Signature)}
	mc := config.MetadataConfig{Metadata: w.Meta}
	pipes := cfg.Pipes()

	w.ReadOps = operations.NewOperations(w.Backend, mc, pipes, w.ReadCrypto, func(*config.HeaderEvent) {})
	onw := o.OnHeader
	if onw == nil {
		onw = func(*config.HeaderEvent) {}
	}
	w.WriteOps = operations.NewOperations(w.Backend, mc, pipes, w.WriteCrypto, onw)

	var gfb func() (cache.WriteCache, func() error, error)
	wops := w.WriteOps
	if o.NilWrite {
		wops = nil
	} else {
		gfb = func() (cache.WriteCache, func() error, error) {
			wc, clean, err := cache.NewCacheWrite(filepath.Join(o.Dir, "wc"), cfg.WriteCache)
			if err != nil {
				return nil, nil, err
			}
			return &probeCache{WriteCache: wc, p: o.Probe}, clean, nil
		}
	}
	w.FS = fs.NewSTFS(w.ReadOps, wops, mc, cfg.Level, gfb, o.ReadOnly || o.NilWrite, cfg.WPIR, func(*config.Header) {}, nopLogger{})
	if !o.NoInit {
		w.Root, w.InitErr = w.FS.Initialize("/", os.ModePerm)
	}
	return w, nil
}

// vanished performs the real open while the drive's parent directory is renamed away, so
// that the real code path fails with the real lock state ("drive vanished at the k-th open").
func (w *World) vanished(open func() error) (config.DriveWriterConfig, error) {
	dir := filepath.Dir(w.Drive)
	away := dir + ".away"
	if err := os.Rename(dir, away); err != nil {
		return config.DriveWriterConfig{}, ErrInjected
	}
	err := open()
	_ = os.Rename(away, dir)
	if err == nil {
		// the open succeeded although the directory was gone (cannot happen for a path
		// below it); treat like an injected failure of the seam itself
		return config.DriveWriterConfig{}, ErrInjected
	}
	return config.DriveWriterConfig{}, err
}

// DBHandle reaches the *sql.DB of a MetadataPersister (it has no Close method).
func DBHandle(mp *persisters.MetadataPersister) *sql.DB {
	defer func() { _ = recover() }()
	v := reflect.ValueOf(mp).Elem().FieldByName("sqlite")
	if !v.IsValid() {
		return nil
	}
	v = reflect.NewAt(v.Type(), unsafe.Pointer(v.UnsafeAddr())).Elem()
	s := v.Elem().FieldByName("DB")
	if !s.IsValid() {
		return nil
	}
	db, _ := s.Interface().(*sql.DB)
	return db
}

// Close releases the sqlite handle. The tape manager holds no descriptor between calls.
func (w *World) Close() {
	if w == nil || w.closed {
		return
	}
	w.closed = true
	if db := DBHandle(w.MP); db != nil {
		_ = db.Close()
	}
}

// Headers returns the live rows of the index through the public persister API.
func (w *World) Headers() ([]*config.Header, error) {
	return w.MP.GetHeaders(context.Background())
}

// TapeBytes reads the whole drive file.
func (w *World) TapeBytes() []byte {
	b, err := os.ReadFile(w.Drive)
	if err != nil {
		return nil
	}
	return b
}

func CopyFile(dst, src string) error {
	in, err := os.Open(src)
	if err != nil {
		if os.IsNotExist(err) {
			return os.WriteFile(dst, nil, 0600)
		}
		return err
	}
	defer in.Close()
	out, err := os.OpenFile(dst, os.O_WRONLY|os.O_CREATE|os.O_TRUNC, 0600)
	if err != nil {
		return err
	}
	if _, err := io.Copy(out, in); err != nil {
		out.Close()
		return err
	}
	return out.Close()
}

var scratchMu sync.Mutex
var scratchN int

// ScratchRoot is the per-process scratch directory (tmpfs when available).
func ScratchRoot() string {
	if d := os.Getenv("VERIF_SCRATCH"); d != "" {
		_ = os.MkdirAll(d, 0700)
		return d
	}
	base := os.TempDir()
	if st, err := os.Stat("/dev/shm"); err == nil && st.IsDir() {
		base = "/dev/shm"
	}
	d := filepath.Join(base, fmt.Sprintf("verif-%d", os.Getpid()))
	_ = os.MkdirAll(d, 0700)
	return d
}

// NewDir returns a fresh empty directory below the scratch root.
func NewDir(tag string) string {
	scratchMu.Lock()
	scratchN++
	n := scratchN
	scratchMu.Unlock()
	d := filepath.Join(ScratchRoot(), fmt.Sprintf("%s-%d", tag, n))
	_ = os.RemoveAll(d)
	_ = os.MkdirAll(d, 0700)
	return d
}

// Reindex runs recovery.Index over the world's drive into the world's index with the real
// decrypt and verify callbacks (exactly what STFS.Initialize passes).
func (w *World) Reindex(overwrite bool, onHeader func(*config.Header)) error {
	rd, err := w.Backend.GetReader()
	if err != nil {
		return err
	}
	defer w.Backend.CloseReader()
	pipes := w.Cfg.Pipes()
	return recovery.Index(rd, w.Backend.MagneticTapeIO, config.MetadataConfig{Metadata: w.Meta}, pipes, w.ReadCrypto,
		0, 0, overwrite, false, 0,
		func(hdr *tar.Header, i int) error {
			return encryption.DecryptHeader(hdr, pipes.Encryption, w.ReadCrypto.Identity)
		},
		func(hdr *tar.Header, isRegular bool) error {
			return signature.VerifyHeader(hdr, isRegular, pipes.Signature, w.ReadCrypto.Recipient)
		},
		onHeader)
}

// QueryTape runs recovery.Query from the start of the tape.
func (w *World) QueryTape(onHeader func(*config.Header)) ([]*tar.Header, error) {
	rd, err := w.Backend.GetReader()
	if err != nil {
		return nil, err
	}
	defer w.Backend.CloseReader()
	return recovery.Query(rd, w.Backend.MagneticTapeIO, w.Cfg.Pipes(), w.ReadCrypto, 0, 0, onHeader)
}
