package world

import (
	"crypto/rand"
	"sync"

	"aead.dev/minisign"
	"filippo.io/age"
	"github.com/pojntfx/stfs/pkg/config"
	"github.com/pojntfx/stfs/pkg/keys"
	"github.com/pojntfx/stfs/pkg/utility"
)

// KeySet is one party's key material for every format. Keys come from crypto/rand: they
// are the one source of randomness outside the rapid seed and no oracle depends on them.
type KeySet struct {
	AgeID      *age.X25519Identity
	PGPEncPriv interface{}
	PGPEncPub  interface{}
	PGPSigPriv interface{}
	PGPSigPub  interface{}
	MiniPub    minisign.PublicKey
	MiniPriv   minisign.PrivateKey
}

func (k *KeySet) EncRecipient(f string) interface{} {
	switch f {
	case config.EncryptionFormatAgeKey:
		return k.AgeID.Recipient()
	case config.EncryptionFormatPGPKey:
		return k.PGPEncPub
	}
	return []byte{}
}
func (k *KeySet) EncIdentity(f string) interface{} {
	switch f {
	case config.EncryptionFormatAgeKey:
		return k.AgeID
	case config.EncryptionFormatPGPKey:
		return k.PGPEncPriv
	}
	return []byte{}
}
func (k *KeySet) SigRecipient(f string) interface{} {
	switch f {
	case config.SignatureFormatMinisignKey:
		return k.MiniPub
	case config.SignatureFormatPGPKey:
		return k.PGPSigPub
	}
	return []byte{}
}
func (k *KeySet) SigIdentity(f string) interface{} {
	switch f {
	case config.SignatureFormatMinisignKey:
		return k.MiniPriv
	case config.SignatureFormatPGPKey:
		return k.PGPSigPriv
	}
	return []byte{}
}

func newKeySet() *KeySet {
	k := &KeySet{}
	var err error
	if k.AgeID, err = age.GenerateX25519Identity(); err != nil {
		panic(err)
	}
	pgp := func() (interface{}, interface{}) {
		priv, pub, err := utility.Keygen(config.PipeConfig{Encryption: config.EncryptionFormatPGPKey}, config.PasswordConfig{Password: "harness"})
		if err != nil {
			panic(err)
		}
		id, err := keys.ParseIdentity(config.EncryptionFormatPGPKey, priv, "harness")
		if err != nil {
			panic(err)
		}
		rc, err := keys.ParseRecipient(config.EncryptionFormatPGPKey, pub)
		if err != nil {
			panic(err)
		}
		return id, rc
	}
	k.PGPEncPriv, k.PGPEncPub = pgp()
	k.PGPSigPriv, k.PGPSigPub = pgp()
	if k.MiniPub, k.MiniPriv, err = minisign.GenerateKey(rand.Reader); err != nil {
		panic(err)
	}
	return k
}

var (
	keyOnce         sync.Once
	ownerK, strangK *KeySet
)

func initKeys() {
	keyOnce.Do(func() { ownerK, strangK = newKeySet(), newKeySet() })
}

func Owner() *KeySet    { initKeys(); return ownerK }
func Stranger() *KeySet { initKeys(); return strangK }
