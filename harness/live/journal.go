package live

import (
	"bytes"
	"crypto/sha256"
	"encoding/hex"
	"encoding/json"
	"os"
	"sort"
	"sync"
)

// Journal: the in-flight case, one JSON value per line, written before execution, so that
// a worker that dies (panic on a foreign goroutine, fatal error) leaves its case behind.
type Journal struct {
	mu   sync.Mutex
	path string
	f    *os.File
	h    []byte
}

var J = &Journal{path: os.Getenv("VERIF_JOURNAL")}

func (j *Journal) Begin(header interface{}) {
	j.mu.Lock()
	defer j.mu.Unlock()
	j.h = nil
	if j.path == "" {
		return
	}
	if j.f != nil {
		j.f.Close()
	}
	f, err := os.OpenFile(j.path, os.O_WRONLY|os.O_CREATE|os.O_TRUNC, 0644)
	if err != nil {
		return
	}
	j.f = f
	j.header(header)
}

// header writes the first line of a case. The guards the process runs with are recorded in
// it, so that a replay judges the case under the same steering as the run that produced it.
func (j *Journal) header(v interface{}) {
	b, _ := json.Marshal(v)
	if g := os.Getenv("VERIF_GUARDS"); g != "" && len(b) > 2 && b[0] == '{' && !bytes.Contains(b, []byte(`"guards":`)) {
		q, _ := json.Marshal(g)
		b = append(append([]byte(`{"guards":`), append(q, ',')...), b[1:]...)
	}
	j.h = append(j.h, b...)
	j.h = append(j.h, '\n')
	if j.f != nil {
		j.f.Write(append(b, '\n'))
	}
}

func (j *Journal) line(v interface{}) {
	b, _ := json.Marshal(v)
	j.h = append(j.h, b...)
	j.h = append(j.h, '\n')
	if j.f != nil {
		j.f.Write(append(b, '\n'))
	}
}

func (j *Journal) Add(v interface{}) {
	j.mu.Lock()
	defer j.mu.Unlock()
	j.line(v)
}

// Fail records the failure message of the in-flight case.
func (j *Journal) Fail(msg string) {
	j.Add(map[string]string{"fail": msg})
}

// Digest of everything journaled for the current case.
func (j *Journal) Digest() string {
	j.mu.Lock()
	defer j.mu.Unlock()
	s := sha256.Sum256(j.h)
	return hex.EncodeToString(s[:8])
}

func (j *Journal) Lines() []json.RawMessage {
	j.mu.Lock()
	defer j.mu.Unlock()
	var out []json.RawMessage
	start := 0
	for i, c := range j.h {
		if c == '\n' {
			out = append(out, json.RawMessage(append([]byte(nil), j.h[start:i]...)))
			start = i + 1
		}
	}
	return out
}

// Stats are the measured coverage counters of one worker; the driver merges them.
type Stats struct {
	mu          sync.Mutex
	Evaluations int                    `json:"evaluations"`
	Steps       int                    `json:"steps"`
	Inner       int                    `json:"inner_points"`
	Nontrivial  map[string]bool        `json:"nontrivial_digests"`
	Samples     []interface{}          `json:"samples"`
	Classes     map[string]int         `json:"classes"`
	Configs     map[string]int         `json:"configs"`
	Excluded    map[string]int         `json:"excluded"`
	Extra       map[string]interface{} `json:"extra"`
}

var S = &Stats{Nontrivial: map[string]bool{}, Classes: map[string]int{}, Configs: map[string]int{}, Excluded: map[string]int{}, Extra: map[string]interface{}{}}

func (s *Stats) Case(cfg string, nontrivial bool, digest string, sample func() interface{}) {
	s.mu.Lock()
	defer s.mu.Unlock()
	s.Evaluations++
	if cfg != "" {
		s.Configs[cfg]++
	}
	if nontrivial {
		if !s.Nontrivial[digest] && len(s.Samples) < 3 && sample != nil {
			s.Samples = append(s.Samples, sample())
		}
		s.Nontrivial[digest] = true
	}
}
func (s *Stats) Class(label string) { s.mu.Lock(); s.Classes[label]++; s.mu.Unlock() }
func (s *Stats) ClassN(label string, n int) {
	s.mu.Lock()
	s.Classes[label] += n
	s.mu.Unlock()
}
func (s *Stats) Exclude(guard string) { s.mu.Lock(); s.Excluded[guard]++; s.mu.Unlock() }
func (s *Stats) AddSteps(n int)       { s.mu.Lock(); s.Steps += n; s.mu.Unlock() }
func (s *Stats) AddInner(n int)       { s.mu.Lock(); s.Inner += n; s.mu.Unlock() }
func (s *Stats) SetExtra(k string, v interface{}) {
	s.mu.Lock()
	s.Extra[k] = v
	s.mu.Unlock()
}

// Flush writes the counters to $VERIF_STATS (called after every case: a dying worker
// still leaves its counts behind).
func (s *Stats) Flush() {
	p := os.Getenv("VERIF_STATS")
	if p == "" {
		return
	}
	s.mu.Lock()
	defer s.mu.Unlock()
	type out struct {
		Evaluations int                    `json:"evaluations"`
		Steps       int                    `json:"steps"`
		Inner       int                    `json:"inner_points"`
		Nontrivial  []string               `json:"nontrivial_digests"`
		Samples     []interface{}          `json:"samples"`
		Classes     map[string]int         `json:"classes"`
		Configs     map[string]int         `json:"configs"`
		Excluded    map[string]int         `json:"excluded"`
		Extra       map[string]interface{} `json:"extra"`
		Calls       int64                  `json:"watched_calls"`
		Hangs       int64                  `json:"hang_verdicts"`
	}
	o := out{s.Evaluations, s.Steps, s.Inner, nil, s.Samples, s.Classes, s.Configs, s.Excluded, s.Extra, Calls, Hangs}
	for d := range s.Nontrivial {
		o.Nontrivial = append(o.Nontrivial, d)
	}
	sort.Strings(o.Nontrivial)
	b, _ := json.Marshal(o)
	tmp := p + ".tmp"
	if os.WriteFile(tmp, b, 0644) == nil {
		os.Rename(tmp, p)
	}
}
