// Package live: liveness watchdog with a sound deadlock verdict, journal, counters.
package live

import (
	"bytes"
	"fmt"
	"regexp"
	"runtime"
	"sort"
	"strings"
	"sync/atomic"
	"time"
)

// Verdicts of Do.
const (
	Returned = iota
	Hang     // sound: every goroutine of the process is blocked and nothing can wake them
	Timeout  // inconclusive: still running after the budget
)

var (
	SampleEvery = 200 * time.Millisecond
	Window      = 3 * time.Second
	Budget      = 60 * time.Second
	GraceFirst  = 400 * time.Millisecond
)

var hdrRe = regexp.MustCompile(`^goroutine (\d+) \[([^\],]+)(?:, [^\]]*)?\]:$`)

var blockedStates = map[string]bool{
	"chan receive": true, "chan send": true, "select": true, "sync.Mutex.Lock": true,
	"sync.RWMutex.Lock": true, "sync.RWMutex.RLock": true, "semacquire": true,
	"sync.Cond.Wait": true, "sync.WaitGroup.Wait": true, "select (no cases)": true,
	"chan receive (nil chan)": true, "chan send (nil chan)": true,
}

// idle service goroutines that are allowed to be in any state
var serviceTop = []string{"os/signal.signal_recv", "os/signal.loop", "runtime.ensureSigM"}

type gor struct {
	id    string
	state string
	top   string
	body  string
}

func parseStacks(b []byte) []gor {
	var out []gor
	for _, blk := range bytes.Split(b, []byte("\n\n")) {
		lines := strings.Split(strings.TrimSpace(string(blk)), "\n")
		if len(lines) == 0 {
			continue
		}
		m := hdrRe.FindStringSubmatch(lines[0])
		if m == nil {
			continue
		}
		g := gor{id: m[1], state: m[2], body: string(blk)}
		if len(lines) > 1 {
			g.top = lines[1]
		}
		out = append(out, g)
	}
	return out
}

func allStacks() []byte {
	n := 1 << 20
	for {
		buf := make([]byte, n)
		k := runtime.Stack(buf, true)
		if k < n {
			return buf[:k]
		}
		n *= 2
	}
}

// signature of the process state if it is fully blocked, "" otherwise.
func blockedSignature(self string) (string, string) {
	raw := allStacks()
	gs := parseStacks(raw)
	var parts []string
	for _, g := range gs {
		if strings.Contains(g.body, "live.blockedSignature") {
			continue // the watchdog itself
		}
		svc := false
		for _, s := range serviceTop {
			if strings.Contains(g.body, s) {
				svc = true
			}
		}
		if svc {
			continue
		}
		if !blockedStates[g.state] {
			return "", string(raw)
		}
		parts = append(parts, g.id+"|"+g.state+"|"+g.top)
	}
	sort.Strings(parts)
	return strings.Join(parts, "\n"), string(raw)
}

var Calls, Hangs int64

// Do runs f on its own goroutine and decides whether it returned. A Hang verdict is not a
// wall-clock timeout: it is given only when the call is still in flight and every
// goroutine in the process stayed blocked, with identical states and top frames, for a
// whole Window.
func Do(name string, f func()) (verdict int, detail string) {
	atomic.AddInt64(&Calls, 1)
	done := make(chan struct{})
	var pv interface{}
	go func() {
		defer func() {
			if r := recover(); r != nil {
				pv = r
			}
			close(done)
		}()
		f()
	}()
	select {
	case <-done:
		if pv != nil {
			panic(pv)
		}
		return Returned, ""
	case <-time.After(GraceFirst):
	}
	start := time.Now()
	tick := time.NewTicker(SampleEvery)
	defer tick.Stop()
	lastSig := ""
	var since time.Time
	for {
		select {
		case <-done:
			if pv != nil {
				panic(pv)
			}
			return Returned, ""
		case <-tick.C:
			sig, raw := blockedSignature("")
			if sig == "" {
				lastSig = ""
			} else if sig != lastSig {
				lastSig = sig
				since = time.Now()
			} else if time.Since(since) >= Window {
				select {
				case <-done:
					if pv != nil {
						panic(pv)
					}
					return Returned, ""
				default:
				}
				atomic.AddInt64(&Hangs, 1)
				return Hang, fmt.Sprintf("call %s never returned: all goroutines blocked for %v\n%s", name, Window, trimStacks(raw))
			}
			if time.Since(start) > Budget {
				return Timeout, fmt.Sprintf("call %s still running after %v", name, Budget)
			}
		}
	}
}

func trimStacks(raw string) string {
	var keep []string
	for _, blk := range strings.Split(raw, "\n\n") {
		if strings.Contains(blk, "pojntfx/stfs") {
			lines := strings.Split(blk, "\n")
			if len(lines) > 14 {
				lines = lines[:14]
			}
			keep = append(keep, strings.Join(lines, "\n"))
		}
	}
	if len(keep) > 6 {
		keep = keep[:6]
	}
	return strings.Join(keep, "\n\n")
}
