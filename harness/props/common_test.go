package props

import (
	"encoding/json"
	"flag"
	"fmt"
	"os"
	"sort"
	"strconv"
	"strings"
	"testing"

	"pgregory.net/rapid"
	"verif/harness/hist"
	"verif/harness/live"
	"verif/harness/observe"
	"verif/harness/world"
)

var (
	replayFile      = flag.String("replay", "", "replay a journaled case instead of generating")
	maxSteps        = flag.Int("steps", 14, "maximum number of steps per generated history")
	tier            = flag.String("tier", "quick", "quick|thorough")
	ageWraps        = flag.Int("agewraps", 60, "C18: extra low-work-factor password-wrapped age identities parsed per age case")
	schedules       = flag.Int("schedules", 3, "C11: perturbed schedules per generated program set")
	replayRuns      = flag.Int("replayruns", 8, "C11: how often a replayed case is executed")
	gnuTar          = flag.Bool("gnutar", false, "C17: let /usr/bin/tar write a third of the archives")
	noMinisign      = flag.Bool("nominisign", false, "C18: leave out minisign (scrypt at 1 GiB per operation)")
	byteEdits       = flag.Int("byteedits", 300, "C08: number of enumerated single-byte edits per tape (-1: every byte, three edits each)")
	maxCuts         = flag.Int("cuts", 150, "C06/C16: maximum number of cut points per history")
	exhaustiveBelow = flag.Int("exhaustive", 0, "C06: tapes up to this many bytes are cut at every byte")
)

func TestMain(m *testing.M) {
	flag.Parse()
	code := m.Run()
	live.S.Flush()
	_ = os.RemoveAll(world.ScratchRoot())
	os.Exit(code)
}

// guards: names of known findings whose region is steered away from (set by the driver
// only for findings that are open and whose canonical repro still fails).
var guards = func() map[string]bool {
	m := map[string]bool{}
	for _, g := range strings.Split(os.Getenv("VERIF_GUARDS"), ",") {
		if g = strings.TrimSpace(g); g != "" {
			m[g] = true
		}
	}
	return m
}()

func guard(name string) bool { return guards[name] }

// failer abstracts rapid.T and testing.T.
type failer interface {
	Fatalf(format string, args ...interface{})
	Logf(format string, args ...interface{})
}

func failf(f failer, format string, args ...interface{}) {
	msg := fmt.Sprintf(format, args...)
	live.J.Fail(msg)
	live.S.Flush()
	f.Fatalf("%s", msg)
}

// oracle is the per-property judge attached to a history.
type oracle interface {
	// Before is called before a step is executed.
	Before(x *hctx, s hist.Step)
	// After judges the step; a non-empty string is a violation.
	After(x *hctx, s hist.Step, res hist.Res, mres hist.MRes) string
	// End judges the whole history.
	End(x *hctx) string
	// Nontrivial says whether the finished history satisfies the property's rule.
	Nontrivial(x *hctx) bool
}

// hctx is the state of one history-shaped case.
type hctx struct {
	prop   string
	f      failer
	cfg    world.Cfg
	r      *hist.Runner
	mr     *hist.MRunner
	steps  []hist.Step
	labels map[string]bool
	params hist.Params
}

func (x *hctx) label(l string) { x.labels[l] = true }

// classify records generic labels of a step and its outcome.
func (x *hctx) classify(s hist.Step, res hist.Res, mres hist.MRes) {
	if res.Skipped {
		return
	}
	out := "ok"
	if res.Err != nil {
		out = "rejected"
		x.label("has-rejected")
	}
	x.label("op:" + s.Op + ":" + out)
	switch s.Op {
	case "rename", "arch_move":
		if res.Err == nil {
			x.label("has-move")
		}
	case "remove", "removeall", "arch_delete":
		if res.Err == nil {
			x.label("has-delete")
		}
	case "reopen":
		x.label("has-reopen")
	case "rebuild":
		x.label("has-rebuild-and-continue")
	case "symlink":
		if res.Err == nil {
			x.label("has-symlink")
		}
	case "chmod", "chown", "chtimes":
		if res.Err == nil {
			x.label("has-metadata-only")
		}
	case "arch_archive", "arch_update":
		if len(s.Members) >= 2 {
			x.label("has-batched")
		}
	case "close", "sync":
		if res.Err == nil {
			x.label("has-content-commit")
		}
	}
	for _, p := range []string{s.Path, s.Path2} {
		if strings.ContainsAny(p, "_%") {
			x.label("name:wildcard")
		}
		if strings.ContainsAny(p, " .") {
			x.label("name:dot-or-space")
		}
		for _, c := range p {
			if c > 127 {
				x.label("name:non-ascii")
				break
			}
		}
		if len(p) > 100 {
			x.label("name:long")
		}
	}
	if s.Size > x.cfg.RecordSize*512 {
		x.label("content:multi-record")
	}
}

// runCase executes a history: next yields the steps (drawn by rapid or read from a
// replay file). Everything that is executed is journaled first.
func runCase(f failer, prop string, cfg world.Cfg, params hist.Params, orc oracle, opts world.Opts, next func(x *hctx, i int) (hist.Step, bool)) {
	live.J.Begin(hist.Case{Property: prop, Cfg: cfg, Params: params, Steps: []hist.Step{}})
	r, err := hist.NewRunner(cfg, opts)
	if err != nil {
		if he, ok := err.(*observe.HangError); ok {
			failf(f, "%s", he.Detail)
		}
		failf(f, "cannot build world: %v", err)
	}
	defer r.Finish()
	if r.W.InitErr != nil {
		failf(f, "Initialize on an empty drive failed: %v", r.W.InitErr)
	}
	x := &hctx{prop: prop, f: f, cfg: cfg, r: r, mr: hist.NewMRunner(), labels: map[string]bool{}, params: params}
	x.mr.M.WPIR = cfg.WPIR
	for i := 0; ; i++ {
		s, ok := next(x, i)
		if !ok {
			break
		}
		live.J.Add(s)
		x.steps = append(x.steps, s)
		orc.Before(x, s)
		res := r.Do(s)
		if res.Hang != nil {
			if res.Hang.Verdict == live.Timeout && !busyIsViolation {
				inconclusive(f, res.Hang.Detail)
			}
			failf(f, "step %d %s: %s", i, s, res.Hang.Detail)
		}
		mres := x.mr.Do(s)
		if known := knownOutcome(x, s, res); known != "" {
			// a listed finding struck by chance (not steerable): the case ends here, counted
			live.S.Exclude(known)
			break
		}
		x.classify(s, res, mres)
		if os.Getenv("VERIF_DUMP") != "" {
			rows, _ := observe.IndexDump(x.r.W.DB)
			fmt.Fprintf(os.Stderr, "--- after step %d %s err=%v\n%s", i, s, res.Err, observe.DumpString(rows))
		}
		if msg := orc.After(x, s, res, mres); msg != "" {
			failf(f, "after step %d %s (err=%v):\n%s", i, s, res.Err, msg)
		}
	}
	if msg := orc.End(x); msg != "" {
		failf(f, "at end of history:\n%s", msg)
	}
	nt := orc.Nontrivial(x)
	for l := range x.labels {
		live.S.Class(l)
	}
	live.S.AddSteps(len(x.steps))
	live.S.Case(cfg.String(), nt, live.J.Digest(), func() interface{} {
		var ss []string
		for _, s := range x.steps {
			ss = append(ss, s.String())
		}
		return map[string]interface{}{"cfg": cfg.String(), "steps": ss}
	})
	live.S.Flush()
}

// inconclusive ends the process with the infrastructure exit status: a wall-clock limit
// is never reported as a violation.
func inconclusive(f failer, msg string) {
	fmt.Fprintf(os.Stderr, "INCONCLUSIVE: %s\n", msg)
	live.S.Flush()
	os.Exit(3)
}

// hangMsg turns a watchdog error from an observer into a failure or exit.
// busyIsViolation: for the properties whose statement is termination (C06, C10, C16) a
// call that is still *running* (not blocked) after live.Budget (thousands of times its
// normal duration) counts as not terminating; everywhere else it is inconclusive.
var busyIsViolation bool

// busyIsInconclusive ends the run as inconclusive when a watchdog verdict only says "still
// running after the budget" and the property is not one about termination.
func busyIsInconclusive(f failer, h *observe.HangError) {
	if h != nil && h.Verdict == live.Timeout && !busyIsViolation {
		inconclusive(f, h.Detail)
	}
}

func checkObs(f failer, err error, what string) {
	if err == nil {
		return
	}
	if he, ok := err.(*observe.HangError); ok {
		if he.Verdict == live.Timeout && !busyIsViolation {
			inconclusive(f, he.Detail)
		}
		failf(f, "%s: %s", what, he.Detail)
	}
	failf(f, "%s: %v", what, err)
}

// rapidHistory is the generating front end of runCase.
func rapidHistory(t *rapid.T, prop string, cfg world.Cfg, weights map[string]int, universe []string, orc oracle, avoid func(hist.Step, *hist.MRunner) string) {
	rapidHistoryOpts(t, prop, cfg, weights, universe, orc, avoid, world.Opts{})
}

func rapidHistoryOpts(t *rapid.T, prop string, cfg world.Cfg, weights map[string]int, universe []string, orc oracle, avoid func(hist.Step, *hist.MRunner) string, opts world.Opts) {
	g := hist.NewGen(t, weights, universe, 4, cfg.RecordSize).WithSuffixNames(t, cfg)
	if guard("F-33") && cfg.Compression == "parallelbzip2" && cfg.Encryption == "pgp" {
		g.MaxSize = 90000 // finding F-33: larger contents cannot be read back
		live.S.Exclude("F-33")
	}
	g.Avoid = f33Avoid(cfg, avoid)
	// one non-empty member in ten has a source that cannot be opened; one path operand of the
	// filesystem-level calls in eight is spelled relative to the root (d/f, ./d/f)
	g.FailingSources, g.RelSpell = 10, 8
	g.HugeTruncates = cfg.Compression == "" && cfg.Encryption == ""
	if v := os.Getenv("VERIF_FAILSRC"); v != "" {
		g.FailingSources, _ = strconv.Atoi(v)
	}
	if v := os.Getenv("VERIF_RELSPELL"); v != "" {
		g.RelSpell, _ = strconv.Atoi(v)
	}
	n := rapid.IntRange(1, *maxSteps).Draw(t, "nsteps")
	var params hist.Params
	if opts.Overwrite || opts.TapeLikeWriter {
		params = hist.Params{"overwrite": opts.Overwrite, "tape_like_writer": opts.TapeLikeWriter}
		if opts.Probe != nil && opts.Probe.FailSeam == world.SeamOpenWriter {
			params["failing_open_k"] = opts.Probe.FailK
		}
	}
	// a quarter of the cases of checks that know the step swap the index for one rebuilt from
	// the tape somewhere in the middle (a rebuilt index spells names relative to the root)
	rebuildAt := -1
	if weights["rebuild"] > 0 && n >= 2 && rapid.IntRange(0, 3).Draw(t, "rebuild-in-the-middle") == 0 {
		rebuildAt = rapid.IntRange(1, n-1).Draw(t, "rebuild-at")
		live.S.Class("rebuild_in_the_middle")
	}
	runCase(t, prop, cfg, params, orc, opts, func(x *hctx, i int) (hist.Step, bool) {
		if i >= n {
			return hist.Step{}, false
		}
		if i == rebuildAt {
			if s := (hist.Step{Op: "rebuild"}); g.Avoid == nil || g.Avoid(s, x.mr) == "" {
				return s, true
			}
		}
		return g.Draw(t, x.mr), true
	})
	for k, v := range g.Excluded {
		for i := 0; i < v; i++ {
			live.S.Exclude(k)
		}
	}
}

// replayHistory runs a journaled case without rapid.
func replayHistory(t *testing.T, c *hist.Case, orc oracle, opts world.Opts) {
	runCase(t, c.Property, c.Cfg, c.Params, orc, opts, func(x *hctx, i int) (hist.Step, bool) {
		if i >= len(c.Steps) {
			return hist.Step{}, false
		}
		return c.Steps[i], true
	})
}

var historyOracles = map[string]func() oracle{}

// TestReplay replays a journaled case of any property, bypassing rapid.
func TestReplay(t *testing.T) {
	if *replayFile == "" {
		t.Skip("no -replay file")
	}
	c, err := hist.LoadCase(*replayFile)
	if err != nil {
		t.Fatalf("cannot load %s: %v", *replayFile, err)
	}
	if c.Guards != "" {
		// judge the case under the steering of the run that produced it
		for _, g := range strings.Split(c.Guards, ",") {
			guards[g] = true
		}
		applyGlobalGuards()
	}
	if rp, ok := customReplays[c.Property]; ok {
		rp(t, c, *replayFile)
		return
	}
	mk, ok := historyOracles[c.Property]
	if !ok {
		t.Fatalf("no replay for property %q", c.Property)
	}
	opts := world.Opts{}
	if b, _ := c.Params["overwrite"].(bool); b {
		opts.Overwrite = true
	}
	if b, _ := c.Params["tape_like_writer"].(bool); b {
		opts.TapeLikeWriter = true
	}
	if k, ok := c.Params["failing_open_k"].(float64); ok && k > 0 {
		opts.Probe = &world.Probe{}
		opts.Probe.Arm(world.SeamOpenWriter, int(k), false)
	}
	if c.Property == "C06" || c.Property == "C16" {
		opts.Probe = sharedProbe
	}
	replayHistory(t, c, mk(), opts)
}

var customReplays = map[string]func(t *testing.T, c *hist.Case, path string){}

func sortedKeys(m map[string]bool) []string {
	var k []string
	for s := range m {
		k = append(k, s)
	}
	sort.Strings(k)
	return k
}

func jsonStr(v interface{}) string { b, _ := json.Marshal(v); return string(b) }
