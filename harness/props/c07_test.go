package props

import (
	"fmt"
	"os"
	"path/filepath"
	"testing"

	"pgregory.net/rapid"
	"verif/harness/hist"
	"verif/harness/live"
	"verif/harness/observe"
	"verif/harness/world"
)

// C07 — re-indexing over an existing index converges (idempotent replay).
type c07 struct {
	faulted  bool
	prefixes int
}

func (o *c07) Before(x *hctx, s hist.Step) {}
func (o *c07) After(x *hctx, s hist.Step, res hist.Res, mres hist.MRes) string {
	return ""
}

// worldOver builds an uninitialised world over a drive and index file.
func worldOver(f failer, cfg world.Cfg, dir, drive, db string, init bool) *world.World {
	var w *world.World
	var err error
	checkObs(f, hist.Call("construct", func() { w, err = world.New(cfg, world.Opts{Dir: dir, Drive: drive, DB: db, NoInit: !init}) }), "construct")
	if err != nil {
		failf(f, "cannot construct: %v", err)
	}
	return w
}

func reindexConvergence(x *hctx, o *c07) string {
	// handles must be closed: the tape has to be at rest
	raw := x.r.W.TapeBytes()
	sc := observe.TapeScan(raw, x.cfg.RecordSize, false)
	if len(sc.Problems) > 0 {
		return fmt.Sprintf("tape does not scan: %v", sc.Problems)
	}
	side := world.NewDir("c07")
	defer os.RemoveAll(side)
	full := filepath.Join(side, "full", "drive.tar")
	_ = os.MkdirAll(filepath.Dir(full), 0700)
	_ = os.WriteFile(full, raw, 0600)

	// reference: rebuild from scratch
	ref := worldOver(x.f, x.cfg, filepath.Join(side, "ref"), full, filepath.Join(side, "ref.sqlite"), true)
	if ref.InitErr != nil {
		ref.Close()
		return "from-scratch rebuild failed: " + ref.InitErr.Error()
	}
	refSnap, e := observe.Snapshot(hist.Call, ref.FS, true)
	checkObs(x.f, e, "snapshot of the from-scratch rebuild")
	ref.Close()

	// prefix ends: after every archive (each call appends one archive)
	var ends []int64
	ends = append(ends, 0)
	for _, a := range sc.Archives {
		ends = append(ends, a.End)
	}
	idx := make([]int, 0, len(ends))
	if len(ends) <= 24 {
		for j := range ends {
			idx = append(idx, j)
		}
	} else {
		for j := 0; j < 22; j++ {
			idx = append(idx, j*(len(ends)-1)/21)
		}
		idx = append(idx, 1, len(ends)-2)
	}
	seen := map[int]bool{}
	for _, j := range idx {
		if seen[j] {
			continue
		}
		seen[j] = true
		o.prefixes++
		live.S.AddInner(1)
		dbj := filepath.Join(side, fmt.Sprintf("idx-%d.sqlite", j))
		var pre *world.World
		if j == len(ends)-1 {
			// j = n: the live index itself (a copy of it)
			if err := world.CopyFile(dbj, x.r.W.DB); err != nil {
				return "copy index: " + err.Error()
			}
		} else {
			cut := filepath.Join(side, fmt.Sprintf("cut-%d", j), "drive.tar")
			_ = os.MkdirAll(filepath.Dir(cut), 0700)
			_ = os.WriteFile(cut, raw[:ends[j]], 0600)
			pre = worldOver(x.f, x.cfg, filepath.Join(side, fmt.Sprintf("pre-%d", j)), cut, dbj, false)
			var err error
			checkObs(x.f, hist.Call("rebuild prefix", func() { err = pre.Reindex(true, nil) }), "rebuild of a prefix")
			pre.Close()
			if err != nil {
				return fmt.Sprintf("rebuild of the first %d archives failed: %v", j, err)
			}
		}
		// once per case: the same replay with one failing index-store call. A replay that
		// reports success has converged; one that reports the failure converges when it is run again
		if !o.faulted && j > 0 {
			o.faulted = true
			dbf := dbj + ".faulted"
			if err := world.CopyFile(dbf, dbj); err == nil {
				probe := &world.Probe{}
				var wf *world.World
				var cerr error
				checkObs(x.f, hist.Call("construct", func() {
					wf, cerr = world.New(x.cfg, world.Opts{Dir: filepath.Join(side, "faulted"), Drive: full, DB: dbf, NoInit: true, Probe: probe})
				}), "construct")
				if cerr != nil {
					failf(x.f, "cannot construct: %v", cerr)
				}
				k := 1 + (j*7+len(raw)/512)%23
				probe.Arm(world.SeamMeta, k, false)
				var ferr error
				checkObs(x.f, hist.Call("replay with a failing index store", func() { ferr = wf.Reindex(false, nil) }), "replay with a failing index-store call")
				_, _, fired := probe.Snapshot()
				probe.Disarm()
				if ferr != nil {
					live.S.Class("faulted-replay:error-reported")
					checkObs(x.f, hist.Call("replay again", func() { ferr = wf.Reindex(false, nil) }), "replay after a failed replay")
					if ferr != nil {
						wf.Close()
						return fmt.Sprintf("after a replay that failed on an index-store error (call %d), running the replay again reported: %v", k, ferr)
					}
				} else if fired {
					live.S.Class("faulted-replay:success-reported")
				}
				wf.Close()
				wf = worldOver(x.f, x.cfg, filepath.Join(side, "faulted"), full, dbf, true)
				fsnap, e := observe.Snapshot(hist.Call, wf.FS, true)
				checkObs(x.f, e, "snapshot after the faulted replay")
				wf.Close()
				if d := observe.Diff("from-scratch", refSnap, "replayed-with-a-failing-index-store-call", fsnap, true); d != "" {
					return fmt.Sprintf("a replay into the index of the first %d archives during which index-store call %d failed (injected=%v) ended with a success report but does not show the from-scratch state:\n%s", j, k, fired, d)
				}
			}
		}
		// replay the whole tape into A_j without wiping
		w := worldOver(x.f, x.cfg, filepath.Join(side, fmt.Sprintf("re-%d", j)), full, dbj, false)
		var err error
		checkObs(x.f, hist.Call("replay", func() { err = w.Reindex(false, nil) }), "replay into an existing index")
		if err != nil {
			w.Close()
			return fmt.Sprintf("replaying the whole tape into an index of the first %d of %d archives reported: %v", j, len(ends)-1, err)
		}
		w.Close()
		w = worldOver(x.f, x.cfg, filepath.Join(side, fmt.Sprintf("re-%d", j)), full, dbj, true)
		if w.InitErr != nil {
			w.Close()
			return fmt.Sprintf("index after replay (prefix %d) cannot be opened: %v", j, w.InitErr)
		}
		snap, e := observe.Snapshot(hist.Call, w.FS, true)
		checkObs(x.f, e, "snapshot after replay")
		w.Close()
		if d := observe.Diff("from-scratch", refSnap, fmt.Sprintf("replayed-over-prefix-%d", j), snap, true); d != "" {
			return fmt.Sprintf("replaying the whole tape into an index of the first %d of %d archives does not converge to the from-scratch rebuild:\n%s", j, len(ends)-1, d)
		}
		// a second replay changes nothing
		d1, _ := observe.IndexDump(dbj)
		w = worldOver(x.f, x.cfg, filepath.Join(side, fmt.Sprintf("re-%d", j)), full, dbj, false)
		checkObs(x.f, hist.Call("replay twice", func() { err = w.Reindex(false, nil) }), "second replay")
		w.Close()
		if err != nil {
			return fmt.Sprintf("second replay (prefix %d) reported: %v", j, err)
		}
		d2, _ := observe.IndexDump(dbj)
		if observe.DumpString(d1) != observe.DumpString(d2) {
			return fmt.Sprintf("running the indexer a second time changed the index (prefix %d):\nfirst:\n%s\nsecond:\n%s", j, observe.DumpString(d1), observe.DumpString(d2))
		}
	}
	return ""
}

func (o *c07) End(x *hctx) string {
	// commit and close open handles so that the tape is at rest
	for i, sl := range x.r.Slots {
		if sl != nil {
			res := x.r.Do(hist.Step{Op: "close", Slot: i})
			if res.Hang != nil {
				checkObs(x.f, res.Hang, "close")
			}
		}
	}
	return reindexConvergence(x, o)
}

func (o *c07) Nontrivial(x *hctx) bool {
	return o.prefixes >= 3 && (x.labels["has-move"] || x.labels["has-delete"])
}

func init() { historyOracles["C07"] = func() oracle { return &c07{} } }

func TestC07(t *testing.T) {
	rapid.Check(t, func(t *rapid.T) {
		cfg := hist.DrawCfg(t, 60, nil)
		rapidHistory(t, "C07", cfg, c01Weights, hist.Universe, &c07{}, avoidFor("C07"))
	})
}
