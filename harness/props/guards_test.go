package props

import (
	"os"

	"verif/harness/hist"
)

// avoidFor returns the steering predicate of a property: it names the guard that excludes
// a drawn step, or "" if the step may be executed. Guards are active only for findings the
// driver found open and still reproducing (VERIF_GUARDS).
func avoidFor(prop string) func(hist.Step, *hist.MRunner) string {
	return func(s hist.Step, mr *hist.MRunner) string {
		// Interpretation decisions (not findings): see DESIGN §6.
		switch s.Op {
		case "remove", "removeall", "rename", "arch_delete", "arch_move":
			// POSIX keeps an unlinked open file alive; STFS handles are path based.
			if mr.HasOpenUnder(s.Path) || (s.Path2 != "" && mr.HasOpenUnder(s.Path2)) {
				return "interp:unlink-open-handle"
			}
		case "create", "openfile":
			if mr.OpenPaths()[hist_clean(s.Path)] {
				return "interp:two-handles-one-file"
			}
			if s.Op == "openfile" {
				acc := s.Flag & (os.O_WRONLY | os.O_RDWR)
				if acc == 0 && s.Flag&os.O_TRUNC != 0 {
					return "interp:O_TRUNC-with-O_RDONLY-is-unspecified"
				}
				if n := mr.M.Get(s.Path); n != nil && n.Kind == "dir" && s.Flag&os.O_APPEND != 0 {
					return "interp:O_APPEND-on-a-directory"
				}
			}
		}
		// Guards of open findings (active only while the finding still reproduces).
		switch s.Op {
		case "chmod", "chown", "chtimes":
			if guard("F-24") && mr.OpenPaths()[hist_clean(s.Path)] {
				return "F-24"
			}
		}
		return ""
	}
}
