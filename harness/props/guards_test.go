package props

import (
	"os"
	"path"
	"strings"

	"verif/harness/hist"
	"verif/harness/live"
	"verif/harness/world"
)

// avoidFor returns the steering predicate of a property: it names the guard that excludes
// a drawn step, or "" if the step may be executed. Guards are active only for findings the
// driver found open and still reproducing (VERIF_GUARDS).
func avoidFor(prop string) func(hist.Step, *hist.MRunner) string {
	return func(s hist.Step, mr *hist.MRunner) string {
		// Interpretation decisions (not findings): see DESIGN §6.
		switch s.Op {
		case "read", "write", "writestring":
			if s.Slot >= 0 && s.Slot < hist.NSlots && mr.CursorOpen[s.Slot] {
				return "interp:cursor-after-WriteAt-is-reference-dependent"
			}
		case "seek":
			if s.Whence == 1 && s.Slot >= 0 && s.Slot < hist.NSlots && mr.CursorOpen[s.Slot] {
				return "interp:cursor-after-WriteAt-is-reference-dependent"
			}
		case "readat":
			if s.N == 0 && s.Off < 0 {
				return "interp:empty-ReadAt-at-negative-offset"
			}
		case "writeat":
			if s.Size == 0 && s.Off < 0 {
				return "interp:empty-WriteAt-at-negative-offset"
			}
			if s.Slot >= 0 && s.Slot < hist.NSlots && mr.Slots[s.Slot] != nil && mr.Slots[s.Slot].Append {
				return "interp:WriteAt-on-O_APPEND-handle"
			}
		}
		switch s.Op {
		case "remove", "removeall", "rename", "arch_delete", "arch_move":
			// POSIX keeps an unlinked open file alive; STFS handles are path based.
			if mr.HasOpenUnder(s.Path) || (s.Path2 != "" && mr.HasOpenUnder(s.Path2)) {
				return "interp:unlink-open-handle"
			}
		case "create", "openfile":
			if mr.OpenPaths()[hist_clean(s.Path)] {
				return "interp:two-handles-one-file"
			}
			if s.Op == "openfile" {
				acc := s.Flag & (os.O_WRONLY | os.O_RDWR)
				if acc == 0 && s.Flag&os.O_TRUNC != 0 {
					return "interp:O_TRUNC-with-O_RDONLY-is-unspecified"
				}
				if n := mr.M.Get(s.Path); n != nil && n.Kind == "dir" && s.Flag&os.O_APPEND != 0 {
					return "interp:O_APPEND-on-a-directory"
				}
			}
		}
		// Symbolic links: STFS stores a link as a row (name=target, linkname=link path).
		// Generated links have an existing target and a free link path, and a link path is
		// afterwards only stat-ed, listed, renamed or removed (DESIGN §6).
		if prop == "C10" {
			// C10 judges termination only: links to links, to themselves, to nothing, over
			// existing names and links as operands of any call are all inputs
		} else if s.Op == "symlink" {
			tgt, lnk := mr.M.Get(s.Path), mr.M.Get(s.Path2)
			par := mr.M.Get(parentOfPath(s.Path2))
			if tgt == nil || tgt.Kind == "link" || lnk != nil || par == nil || par.Kind != "dir" || hist_clean(s.Path) == hist_clean(s.Path2) {
				return "interp:symlink-shape"
			}
			if guard("F-32") && parentOfPath(s.Path2) != "/" {
				return "F-32"
			}
			// F-35 at replay time: a link row is keyed by its target's name, so replaying an
			// earlier delete/move of that name into an index that already holds the link
			// applies the record to the link as well (only C07 replays into a populated index)
			if prop == "C07" && guard("F-35") && mr.WasAddressedAbove(s.Path) {
				return "F-35"
			}
		} else {
			for _, p := range append([]string{s.Path, s.Path2}, memberPaths(s)...) {
				if p == "" {
					continue
				}
				// the path or one of its ancestors is a link
				for c := hist_clean(p); c != "/"; c = parentOfPath(c) {
					if n := mr.M.Get(c); n != nil && n.Kind == "link" {
						switch s.Op {
						case "stat", "list", "remove", "arch_delete":
							if c == hist_clean(p) {
								continue
							}
						}
						return "interp:symlink-as-operand"
					}
				}
			}
		}
		if guard("F-35") {
			switch s.Op {
			case "remove", "removeall", "rename", "arch_delete", "arch_move":
				if mr.TouchesLink(s.Path) || (s.Path2 != "" && mr.TouchesLink(s.Path2)) {
					return "F-35"
				}
			}
		}
		// Archive-level calls are generated the way the CLI uses them on sane inputs: new
		// names for Archive, existing entries of the same kind for Update, a free
		// destination for Move, no name twice in one batch.
		switch s.Op {
		case "arch_archive", "arch_update":
			seen := map[string]bool{}
			for _, mb := range s.Members {
				c := hist_clean(mb.Path)
				if mr.HasOpenUnder(c) {
					return "interp:two-handles-one-file"
				}
				if seen[c] {
					return "interp:archive-level-duplicate-in-batch"
				}
				seen[c] = true
				n := mr.M.Get(c)
				if s.Op == "arch_archive" && (n != nil || mr.M.Get(parentOfPath(c)) == nil || mr.M.Get(parentOfPath(c)).Kind != "dir") {
					return "interp:archive-level-archive-of-existing-or-orphan"
				}
				if s.Op == "arch_update" && n != nil && n.Kind != mb.Kind {
					return "interp:archive-level-update-changes-kind"
				}
				if s.Op == "arch_update" && !s.Replace && mb.Kind == "file" && guard("F-31") {
					return "F-31"
				}
				if s.Op == "arch_update" && n == nil && !guard("F-27") {
					continue
				}
			}
		case "arch_move":
			src, dst := mr.M.Get(s.Path), mr.M.Get(s.Path2)
			if src != nil && (dst != nil || mr.M.Get(parentOfPath(s.Path2)) == nil || mr.M.Get(parentOfPath(s.Path2)).Kind != "dir" || strings.HasPrefix(hist_clean(s.Path2), hist_clean(s.Path)+"/")) {
				return "interp:archive-level-move-onto-existing-or-orphan"
			}
		case "arch_delete":
			if hist_clean(s.Path) == "/" {
				return "interp:archive-level-delete-root"
			}
		}
		// Guards of open findings (active only while the finding still reproduces).
		switch s.Op {
		case "arch_update":
			if guard("F-27") {
				for _, mb := range s.Members {
					if mr.M.Get(mb.Path) == nil {
						return "F-27"
					}
				}
			}
		case "chmod", "chown", "chtimes":
			if guard("F-24") && mr.OpenPaths()[hist_clean(s.Path)] {
				return "F-24"
			}
		}
		return ""
	}
}

func init() { applyGlobalGuards() }

func applyGlobalGuards() {
	if guard("F-29") {
		hist.HideWriterTo = true
		hist.OnHidden = func() { live.S.Exclude("F-29") }
	}
}

// knownOutcome recognises the signature of an open finding that cannot be steered around
// because it depends on randomness outside the generator (crypto/rand).
func knownOutcome(x *hctx, s hist.Step, res hist.Res) string {
	if res.Err == nil {
		return ""
	}
	if guard("F-29") && x.cfg.Encryption == "pgp" {
		msg := res.Err.Error()
		if strings.Contains(msg, "missed writing") || strings.Contains(msg, "write too long") {
			return "F-29"
		}
	}
	return ""
}

func parentOfPath(p string) string { return path.Dir(hist_clean(p)) }

func memberPaths(s hist.Step) []string {
	var out []string
	for _, m := range s.Members {
		out = append(out, m.Path)
	}
	return out
}

// f33Limit is the largest content that finding F-33 (parallelbzip2 + pgp cannot read back
// more than one bzip2 block) leaves readable.
const f33Limit = 90000

// f33Avoid wraps an avoid function: while finding F-33 is open and the configuration is the
// one it concerns, no step may grow a file beyond f33Limit (single contents are capped by
// Gen.MaxSize; this caps what several writes, a write behind a seek or a Truncate add up to).
func f33Avoid(cfg world.Cfg, inner func(hist.Step, *hist.MRunner) string) func(hist.Step, *hist.MRunner) string {
	if !(guard("F-33") && cfg.Compression == "parallelbzip2" && cfg.Encryption == "pgp") {
		return inner
	}
	return func(s hist.Step, mr *hist.MRunner) string {
		if s.Slot >= 0 && s.Slot < hist.NSlots && mr.Slots[s.Slot] != nil {
			h := mr.Slots[s.Slot]
			end := int64(-1)
			switch s.Op {
			case "write", "writestring":
				end = h.Pos + int64(s.Size)
				if h.Append {
					end = h.Size() + int64(s.Size)
				}
			case "writeat":
				end = s.Off + int64(s.Size)
			case "truncate":
				end = s.Off
			}
			if end > f33Limit {
				return "F-33"
			}
		}
		if inner == nil {
			return ""
		}
		return inner(s, mr)
	}
}
