package props

import (
	"verif/harness/hist"
)

// avoidFor returns the steering predicate of a property: it names the guard that excludes
// a drawn step, or "" if the step may be executed. Guards are active only for findings the
// driver found open and still reproducing (VERIF_GUARDS).
func avoidFor(prop string) func(hist.Step, *hist.MRunner) string {
	return func(s hist.Step, mr *hist.MRunner) string {
		// Interpretation decisions (not findings): see DESIGN §6.
		switch s.Op {
		case "remove", "removeall", "rename", "arch_delete", "arch_move":
			// POSIX keeps an unlinked open file alive; STFS handles are path based.
			if mr.HasOpenUnder(s.Path) || (s.Path2 != "" && mr.HasOpenUnder(s.Path2)) {
				return "interp:unlink-open-handle"
			}
		case "create", "openfile":
			if mr.OpenPaths()[hist_clean(s.Path)] {
				return "interp:two-handles-one-file"
			}
		}
		return ""
	}
}
