package props

import (
	"fmt"
	"io"
	"io/fs"
	"os"
	"os/user"
	"path/filepath"
	"sort"
	"strconv"
	"strings"
	"testing"

	"github.com/pojntfx/stfs/pkg/config"
	"pgregory.net/rapid"
	"verif/harness/hist"
	"verif/harness/live"
	"verif/harness/observe"
	"verif/harness/world"
)

// C09 — with encryption on, the tape reveals nothing but record sizes.

// high-entropy name components (the chance of one occurring in ciphertext is negligible)
var c09Universe = []string{"Kq7ZtW3mXv9b", "Hy4NsB8cRp2L", "Vd6FgJ1kTz5Q", "Mw3XcP9nLb7S", "Bt8QrY2vGh4D", "Zn5LkW7jCx1F", "Gx2VbN6mQs8H dir", "Pf9TyU3iOa5E.txt"}

var stfsClearStrings = []string{"STFS.Action", "STFS.Version", "STFS.ReplacesName", "STFS.ReplacesContent", "STFS.UncompressedSize", "STFS.Signature"}

type c09 struct {
	markers map[string]bool
	kinds   map[string]bool
	checked int
}

func (o *c09) Before(x *hctx, s hist.Step) {
	if o.markers == nil {
		o.markers = map[string]bool{}
		o.kinds = map[string]bool{}
		for _, c := range c09Universe {
			o.markers[c] = true
		}
		for _, v := range hist.MarkerUIDs {
			o.markers[strconv.Itoa(v)] = true
			o.markers[strconv.FormatInt(int64(v), 8)] = true
		}
		for _, v := range hist.MarkerGIDs {
			o.markers[strconv.Itoa(v)] = true
			o.markers[strconv.FormatInt(int64(v), 8)] = true
		}
		for _, v := range hist.MarkerTimes {
			o.markers[strconv.FormatInt(v, 10)] = true
			o.markers[strconv.FormatInt(v, 8)] = true
		}
		for _, s := range stfsClearStrings {
			o.markers[s] = true
		}
		if u, err := user.Current(); err == nil && len(u.Username) >= 8 {
			o.markers[u.Username] = true
		}
	}
	add := func(size, dist int, seed uint64) {
		if size >= 24 && dist != 0 {
			b := hist.Bytes(size, dist, seed)
			o.markers[string(b[:16])] = true
			o.markers[string(b[size-16:])] = true
		}
	}
	add(s.Size, s.Dist, s.Seed)
	for _, m := range s.Members {
		add(m.Size, m.Dist, m.Seed)
	}
}

func (o *c09) After(x *hctx, s hist.Step, res hist.Res, mres hist.MRes) string {
	if res.Skipped || !hist.Mutating(s.Op) {
		return ""
	}
	if res.Err == nil {
		switch s.Op {
		case "create", "mkdir", "mkdirall", "arch_archive", "openfile":
			o.kinds["create"] = true
			if s.Op == "mkdir" || s.Op == "mkdirall" {
				o.kinds["nonregular"] = true
			}
		case "close", "sync":
			o.kinds["content"] = true
		case "chmod", "chown", "chtimes":
			o.kinds["metadata"] = true
		case "rename", "arch_move":
			o.kinds["move"] = true
		case "remove", "removeall", "arch_delete":
			o.kinds["delete"] = true
		case "symlink":
			o.kinds["nonregular"] = true
		}
	}
	raw := x.r.W.TapeBytes()
	var ms []string
	for m := range o.markers {
		ms = append(ms, m)
	}
	sort.Strings(ms)
	if found := observe.RawSearch(raw, ms); len(found) > 0 {
		return fmt.Sprintf("the encrypted tape contains in clear: %v", found)
	}
	sc := observe.TapeScan(raw, x.cfg.RecordSize, false)
	if len(sc.Problems) > 0 {
		return fmt.Sprintf("tape does not scan: %v", sc.Problems)
	}
	for _, m := range sc.Members {
		h := m.Hdr
		if h.Name != "" || h.Linkname != "" || h.Uname != "" || h.Gname != "" || h.Uid != 0 || h.Gid != 0 || h.Mode != 0 || (!h.ModTime.IsZero() && h.ModTime.Unix() != 0) {
			return fmt.Sprintf("member at offset %d carries clear metadata: name=%q link=%q uname=%q gname=%q uid=%d gid=%d mode=%o mtime=%v", m.Off, h.Name, h.Linkname, h.Uname, h.Gname, h.Uid, h.Gid, h.Mode, h.ModTime)
		}
		for k := range m.PAX {
			if k != "STFS.EmbeddedHeader" {
				return fmt.Sprintf("member at offset %d carries the clear PAX record %q", m.Off, k)
			}
		}
	}
	o.checked++
	live.S.AddInner(len(ms))
	return ""
}

// End: a different private key gets nothing.
func (o *c09) End(x *hctx) string {
	for i, sl := range x.r.Slots {
		if sl != nil {
			x.r.Do(hist.Step{Op: "close", Slot: i})
		}
	}
	raw := x.r.W.TapeBytes()
	side := world.NewDir("c09")
	defer os.RemoveAll(side)
	drv := filepath.Join(side, "drv", "drive.tar")
	_ = os.MkdirAll(filepath.Dir(drv), 0700)
	_ = os.WriteFile(drv, raw, 0600)
	var w *world.World
	var err error
	checkObs(x.f, hist.Call("construct stranger", func() {
		w, err = world.New(x.cfg, world.Opts{Dir: side, Drive: drv, Stranger: true, NoInit: true})
	}), "construct")
	if err != nil {
		return "cannot construct: " + err.Error()
	}
	defer w.Close()
	accepted := 0
	var ierr error
	checkObs(x.f, hist.Call("Index with a different key", func() {
		ierr = w.Reindex(true, func(*config.Header) { accepted++ })
	}), "index")
	if ierr == nil {
		return "an index rebuild with a different private key reported success"
	}
	rows, _ := observe.IndexDump(w.DB)
	if accepted > 0 || len(rows) > 0 {
		return fmt.Sprintf("an index rebuild with a different private key accepted %d headers (%d rows)", accepted, len(rows))
	}
	// a restore through the operations layer, with the stranger's keys over a copy of the
	// owner's index (the index is not the secret, the keys are): every entry is refused
	db2 := filepath.Join(side, "owner-index-copy.sqlite")
	if err := world.CopyFile(db2, x.r.W.DB); err == nil {
		var w2 *world.World
		checkObs(x.f, hist.Call("construct stranger over the owner's index", func() {
			w2, err = world.New(x.cfg, world.Opts{Dir: filepath.Join(side, "w2"), Drive: drv, DB: db2, Stranger: true, NoInit: true})
		}), "construct")
		if err != nil {
			return "cannot construct: " + err.Error()
		}
		defer w2.Close()
		for _, p := range x.mr.M.Paths() {
			if p == "/" {
				continue
			}
			var rerr error
			checkObs(x.f, hist.Call("Restore "+p+" with a different key", func() {
				rerr = w2.ReadOps.Restore(
					func(string, fs.FileMode) (io.WriteCloser, error) { return discardWC{}, nil },
					func(string, fs.FileMode) error { return nil },
					p, "", true)
			}), "restore")
			live.S.AddInner(1)
			if rerr == nil {
				return fmt.Sprintf("Operations.Restore(%q) succeeded with a different private key (entry kind %s, %d bytes)", p, x.mr.M.Nodes[p].Kind, len(x.mr.M.Nodes[p].Content))
			}
		}
	}
	sc := observe.TapeScan(raw, x.cfg.RecordSize, false)
	for _, m := range sc.Members {
		got, err := fetchAt(x.f, w, m.Record, m.Block)
		if err == nil {
			return fmt.Sprintf("Fetch at (%d,%d) succeeded with a different private key", m.Record, m.Block)
		}
		if len(got) > 0 {
			return fmt.Sprintf("Fetch at (%d,%d) with a different private key wrote %d bytes before failing", m.Record, m.Block, len(got))
		}
	}
	return ""
}

func (o *c09) Nontrivial(x *hctx) bool {
	for _, k := range []string{"create", "content", "metadata", "move", "delete", "nonregular"} {
		if !o.kinds[k] {
			return false
		}
	}
	return o.checked > 0
}

func init() { historyOracles["C09"] = func() oracle { return &c09{} } }

var c09Weights = map[string]int{
	"create": 6, "openfile": 2, "write": 8, "writestring": 2, "close": 8,
	"mkdir": 5, "mkdirall": 2, "remove": 3, "removeall": 2, "rename": 5,
	"chmod": 2, "chown": 3, "chtimes": 3, "symlink": 2, "reopen": 1, "rebuild": 1,
	"arch_archive": 2, "arch_update": 2, "arch_delete": 1, "arch_move": 1,
}

func TestC09(t *testing.T) {
	rapid.Check(t, func(t *rapid.T) {
		cfg := hist.DrawCfg(t, 0, nil)
		cfg.Encryption = rapid.SampledFrom([]string{"age", "pgp"}).Draw(t, "encryption!")
		g := hist.NewGen(t, c09Weights, c09Universe, 4, cfg.RecordSize).WithSuffixNames(t, cfg)
		g.Markers = true
		g.Avoid = f33Avoid(cfg, avoidFor("C09"))
		if guard("F-33") && cfg.Compression == "parallelbzip2" && cfg.Encryption == "pgp" {
			g.MaxSize = 90000
		}
		n := rapid.IntRange(1, *maxSteps).Draw(t, "nsteps")
		// prologue: one record of every kind (create, content, metadata, move, delete, non-regular)
		c := g.Comps
		d, f1, f2 := "/"+c[0], "/"+c[0]+"/"+c[1], "/"+c[0]+"/"+c[2]
		var pro []hist.Step
		if rapid.IntRange(0, 9).Draw(t, "prologue") < 8 {
			pro = []hist.Step{
				{Op: "mkdir", Path: d, Perm: 0755},
				{Op: "create", Path: f1, Slot: 0},
				{Op: "write", Slot: 0, Size: 24 + rapid.IntRange(0, 2000).Draw(t, "psize"), Dist: 3, Seed: rapid.Uint64Range(1, 1<<20).Draw(t, "pseed")},
				{Op: "close", Slot: 0},
				{Op: "chown", Path: f1, UID: hist.MarkerUIDs[0], GID: hist.MarkerGIDs[0]},
				{Op: "chtimes", Path: f1, Atime: hist.MarkerTimes[1]*1e9 + 5, Mtime: hist.MarkerTimes[0]*1e9 + 7},
				{Op: "rename", Path: f1, Path2: f2},
				{Op: "symlink", Path: f2, Path2: "/" + c[3]},
				{Op: "create", Path: f1, Slot: 0},
				{Op: "close", Slot: 0},
				{Op: "remove", Path: f1},
			}
		}
		opts := world.Opts{}
		var params hist.Params
		if rapid.IntRange(0, 3).Draw(t, "tape-like-writer") == 0 {
			// the write path of a tape drive: record-sized buffered writes, padding to whole records
			opts.TapeLikeWriter = true
			cfg = tapeLikeCfg(cfg)
			params = hist.Params{"tape_like_writer": true}
		}
		runCase(t, "C09", cfg, params, &c09{}, opts, func(x *hctx, i int) (hist.Step, bool) {
			if i < len(pro) {
				return pro[i], true
			}
			if i >= len(pro)+n {
				return hist.Step{}, false
			}
			return g.Draw(t, x.mr), true
		})
	})
}

var _ = strings.Contains

type discardWC struct{}

func (discardWC) Write(p []byte) (int, error) { return len(p), nil }
func (discardWC) Close() error                { return nil }
