package props

import (
	"bytes"
	"context"
	"fmt"
	"os"
	"path/filepath"
	"strconv"
	"strings"
	"testing"
	"verif/harness/world"

	"github.com/pojntfx/stfs/pkg/config"
	"pgregory.net/rapid"
	"verif/harness/hist"
	"verif/harness/live"
	"verif/harness/observe"
)

// C04 — index positions designate the right tape records.
type c04 struct {
	prevLen  int64
	expect   map[string]int64 // path -> byte offset of the record that wrote its current content
	offBlock map[int64]int    // histogram of in-record start blocks
	nonzero  int
	spans    bool
	wasOpen  map[int]bool
	existed  map[string]bool
}

func (o *c04) Before(x *hctx, s hist.Step) {
	st, err := os.Stat(x.r.W.Drive)
	o.prevLen = 0
	if err == nil {
		o.prevLen = st.Size()
	}
	if o.expect == nil {
		o.expect = map[string]int64{}
		o.offBlock = map[int64]int{}
	}
	if s.Op == "reopen" || s.Op == "rebuild" {
		// reopening closes (and thereby commits) every open handle
		for p := range x.mr.OpenPaths() {
			delete(o.expect, p)
		}
	}
	o.existed = map[string]bool{}
	for _, p := range x.mr.M.Paths() {
		o.existed[p] = true
	}
}

func (o *c04) moveKeys(from, to string) {
	from, to = hist_clean(from), hist_clean(to)
	for k, v := range o.expect {
		if k == from || strings.HasPrefix(k, from+"/") {
			delete(o.expect, k)
			defer func(k string, v int64) { o.expect[to+strings.TrimPrefix(k, from)] = v }(k, v)
		}
	}
}

func (o *c04) dropKeys(p string) {
	p = hist_clean(p)
	for k := range o.expect {
		if k == p || strings.HasPrefix(k, p+"/") {
			delete(o.expect, k)
		}
	}
}

func (o *c04) After(x *hctx, s hist.Step, res hist.Res, mres hist.MRes) string {
	if res.Skipped || !hist.Mutating(s.Op) {
		return ""
	}
	rs := int64(x.cfg.RecordSize)
	raw := x.r.W.TapeBytes()
	sc := observe.TapeScan(raw, x.cfg.RecordSize, false)
	if len(sc.Problems) > 0 {
		return fmt.Sprintf("tape does not scan: %v", sc.Problems)
	}
	var fresh []observe.Member
	for _, m := range sc.Members {
		if m.Off >= o.prevLen {
			fresh = append(fresh, m)
		}
	}
	// ---- track which record wrote each entry's content (independent of the index) ----
	if res.Err != nil && (s.Op == "arch_archive" || (s.Op == "arch_update" && s.Replace)) {
		// a batch that stopped at a member whose source could not be opened: the members in
		// front of it were written (and have to be indexed like any others)
		k := -1
		for i, mb := range s.Members {
			if mb.FailOpen {
				k = i
				break
			}
		}
		if k > 0 && len(fresh) == k {
			for i := 0; i < k; i++ {
				o.expect[hist_clean(s.Members[i].Path)] = fresh[i].Off
			}
		} else if k >= 0 {
			for i := 0; i < len(s.Members); i++ {
				delete(o.expect, hist_clean(s.Members[i].Path)) // not tracked beyond this point
			}
		}
	}
	if res.Err == nil {
		switch s.Op {
		case "create", "openfile", "mkdir":
			if len(fresh) == 1 && !o.existed[hist_clean(s.Path)] {
				o.expect[hist_clean(s.Path)] = fresh[0].Off
			}
		case "mkdirall":
			// missing ancestors are created top-down, one record each
			var missing []string
			cur := ""
			for _, c := range strings.Split(strings.TrimPrefix(hist_clean(s.Path), "/"), "/") {
				cur += "/" + c
				if !o.existed[cur] {
					missing = append(missing, cur)
				}
			}
			if len(missing) == len(fresh) {
				for i, p := range missing {
					o.expect[p] = fresh[i].Off
				}
			}
		case "close", "sync":
			if len(fresh) == 1 {
				// the handle's path is no longer in the slot after close: use the step log
				if p := o.slotPath(x, s.Slot); p != "" {
					o.expect[p] = fresh[0].Off
				}
			}
		case "arch_archive":
			if len(fresh) == len(s.Members) {
				for i, mb := range s.Members {
					o.expect[hist_clean(mb.Path)] = fresh[i].Off
				}
			}
		case "arch_update":
			if s.Replace && len(fresh) == len(s.Members) {
				for i, mb := range s.Members {
					o.expect[hist_clean(mb.Path)] = fresh[i].Off
				}
			}
		case "rename", "arch_move":
			if hist_clean(s.Path) != hist_clean(s.Path2) {
				o.dropKeys(s.Path2)
				o.moveKeys(s.Path, s.Path2)
			}
		case "remove", "removeall", "arch_delete":
			o.dropKeys(s.Path)
		}
	}
	for _, m := range fresh {
		o.offBlock[m.Block]++
		if m.Block != 0 {
			o.nonzero++
		}
		if m.Off/512/rs != (m.End-1)/512/rs {
			o.spans = true
		}
	}
	// ---- judge the index ----
	rows, err := observe.IndexDump(x.r.W.DB)
	if err != nil {
		return "cannot read the index: " + err.Error()
	}
	starts := sc.Starts()
	open := x.r.OpenPaths()
	for _, r := range rows {
		if r.Block < 0 || r.Block >= rs || r.LastBlock < 0 || r.LastBlock >= rs {
			return fmt.Sprintf("row %q: block %d / last-known block %d not below the record size %d", r.Name, r.Block, r.LastBlock, rs)
		}
		if r.Record < 0 || r.LastRecord < 0 {
			return fmt.Sprintf("row %q: negative record", r.Name)
		}
		pos, lpos := (r.Record*rs+r.Block)*512, (r.LastRecord*rs+r.LastBlock)*512
		if _, ok := starts[lpos]; !ok {
			return fmt.Sprintf("row %q (deleted=%d): last-known position (%d,%d) is not the start of a record on the tape", r.Name, r.Deleted, r.LastRecord, r.LastBlock)
		}
		if r.Deleted != 0 {
			continue
		}
		if _, ok := starts[pos]; !ok {
			return fmt.Sprintf("row %q: position (%d,%d) = byte %d is not the start of a record on the tape", r.Name, r.Record, r.Block, pos)
		}
		if lpos < pos {
			return fmt.Sprintf("row %q: last-known position (%d,%d) is before its content position (%d,%d)", r.Name, r.LastRecord, r.LastBlock, r.Record, r.Block)
		}
		p := observe.Clean(r.Name)
		if r.Linkname != "" {
			continue
		}
		if want, ok := o.expect[p]; ok && want != pos {
			return fmt.Sprintf("row %q: position (%d,%d) = byte %d, but its current content was written by the record at byte %d", r.Name, r.Record, r.Block, pos, want)
		}
		if r.Typeflag == '0' && !open[p] {
			if n := x.mr.M.Get(p); n != nil && n.Kind == "file" {
				if _, tracked := o.expect[p]; tracked {
					got, err := fetchAt(x.f, x.r.W, r.Record, r.Block)
					if err != nil {
						return fmt.Sprintf("Fetch at the position of %s (%d,%d) failed: %v", p, r.Record, r.Block, err)
					}
					if !bytes.Equal(got, n.Content) {
						return fmt.Sprintf("Fetch at the position of %s (%d,%d) returned %d bytes that are not its current content (%d bytes)", p, r.Record, r.Block, len(got), len(n.Content))
					}
					live.S.AddInner(1)
				}
			}
		}
	}
	if len(sc.Members) > 0 {
		last := sc.Members[len(sc.Members)-1]
		lr, lb, err := x.r.W.MP.GetLastIndexedRecordAndBlock(context.Background(), x.cfg.RecordSize)
		if err != nil {
			return "GetLastIndexedRecordAndBlock: " + err.Error()
		}
		if res.Err == nil && (lr != last.Record || lb != last.Block) {
			return fmt.Sprintf("the index reports (%d,%d) as last written, the final record on the tape starts at (%d,%d)", lr, lb, last.Record, last.Block)
		}
	}
	// recovery.Query reports the same (record, block) sequence as the independent scanner
	var q [][2]int64
	var qerr error
	checkObs(x.f, hist.Call("Query", func() {
		_, qerr = x.r.W.QueryTape(func(h *config.Header) { q = append(q, [2]int64{h.Record, h.Block}) })
	}), "query")
	if qerr != nil {
		return "recovery.Query over the tape failed: " + qerr.Error()
	}
	if len(q) != len(sc.Members) {
		return fmt.Sprintf("recovery.Query lists %d records, the tape holds %d", len(q), len(sc.Members))
	}
	for i, m := range sc.Members {
		if q[i] != [2]int64{m.Record, m.Block} {
			return fmt.Sprintf("recovery.Query reports record #%d at (%d,%d), it starts at (%d,%d)", i, q[i][0], q[i][1], m.Record, m.Block)
		}
	}
	return ""
}

// slotPath finds the path the slot was opened on by scanning the journaled steps.
func (o *c04) slotPath(x *hctx, slot int) string {
	p := ""
	for _, st := range x.steps {
		if st.Slot != slot {
			continue
		}
		switch st.Op {
		case "create", "openfile", "open":
			p = hist_clean(st.Path)
		}
	}
	return p
}

// End: whatever an index rebuild accepts of a tape with one unacceptable record in the middle
// (an unsupported STFS.Version, or a flipped bit in its PAX data), every position it records
// is the start of a record, and no two live entries claim the same record.
func (o *c04) End(x *hctx) string {
	for i, sl := range x.r.Slots {
		if sl != nil {
			x.r.Do(hist.Step{Op: "close", Slot: i})
		}
	}
	dmg, what, ok := c16Damage(x.r.W.TapeBytes(), x.cfg.RecordSize)
	if !ok {
		return ""
	}
	side := world.NewDir("c04dmg")
	defer os.RemoveAll(side)
	drv := filepath.Join(side, "drv", "drive.tar")
	_ = os.MkdirAll(filepath.Dir(drv), 0700)
	_ = os.WriteFile(drv, dmg, 0600)
	w := worldOver(x.f, x.cfg, side, drv, filepath.Join(side, "index.sqlite"), false)
	defer w.Close()
	var ierr error
	checkObs(x.f, hist.Call("index a damaged tape", func() { ierr = w.Reindex(true, nil) }), "index rebuild of a tape with "+what)
	live.S.AddInner(1)
	// (record starts are those of the undamaged tape: the damage is in place)
	clean := observe.TapeScan(x.r.W.TapeBytes(), x.cfg.RecordSize, false)
	starts := clean.Starts()
	rows, _ := observe.IndexDump(w.DB)
	rs := int64(x.cfg.RecordSize)
	at := map[[2]int64]string{}
	for _, r := range rows {
		if r.Deleted != 0 || r.Name == "" || r.Name == "/" {
			continue
		}
		if _, ok := starts[(r.Record*rs+r.Block)*512]; !ok {
			return fmt.Sprintf("index rebuilt (err=%v) from a tape with %s: row %q has position (%d,%d), which is not the start of a record", ierr, what, r.Name, r.Record, r.Block)
		}
		// where record headers are readable: a file's size is the size of the content that the
		// record at its position carries (metadata-only records keep both)
		if x.cfg.Encryption == "" && x.cfg.Signature == "" && r.Typeflag == int64('0') {
			m := clean.Members[starts[(r.Record*rs+r.Block)*512]]
			want := m.Hdr.Size
			if v, ok := m.PAX["STFS.UncompressedSize"]; ok {
				if n, err := strconv.ParseInt(v, 10, 64); err == nil {
					want = n
				}
			}
			if r.Size != want {
				return fmt.Sprintf("index rebuilt (err=%v) from a tape with %s: %q has size %d and position (%d,%d), but the record there carries a content of %d bytes (it was written for %q)", ierr, what, r.Name, r.Size, r.Record, r.Block, want, m.Hdr.Name)
			}
		}
		k := [2]int64{r.Record, r.Block}
		if other, dup := at[k]; dup {
			return fmt.Sprintf("index rebuilt (err=%v) from a tape with %s: the live entries %q and %q both claim the record at (%d,%d)", ierr, what, other, r.Name, r.Record, r.Block)
		}
		at[k] = r.Name
	}
	live.S.Class("damaged-tape-positions-judged")
	return ""
}
func (o *c04) Nontrivial(x *hctx) bool {
	for b, n := range o.offBlock {
		live.S.ClassN(fmt.Sprintf("start-block-mod:%d", b%8), n)
	}
	if o.spans {
		live.S.Class("member-spans-record-boundary")
	}
	return o.nonzero >= 2 || o.spans
}

func init() { historyOracles["C04"] = func() oracle { return &c04{} } }

var c04Weights = map[string]int{
	"create": 6, "openfile": 3, "write": 8, "writestring": 1, "sync": 1, "close": 8,
	"mkdir": 5, "mkdirall": 3, "remove": 3, "removeall": 2, "rename": 6,
	"chmod": 2, "chown": 1, "chtimes": 2, "reopen": 1, "rebuild": 1,
	"arch_archive": 5, "arch_update": 4, "arch_delete": 2, "arch_move": 3,
}

func TestC04(t *testing.T) {
	rapid.Check(t, func(t *rapid.T) {
		cfg := hist.DrawCfg(t, 60, []int{1, 2, 3, 7, 20, 64})
		rapidHistory(t, "C04", cfg, c04Weights, hist.Universe, &c04{}, avoidFor("C04"))
	})
}
