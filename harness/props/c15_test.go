package props

import (
	"bytes"
	"crypto/sha256"
	"errors"
	"fmt"
	"os"
	"path/filepath"
	"sort"
	"strings"
	"testing"

	"pgregory.net/rapid"
	"verif/harness/hist"
	"verif/harness/live"
	"verif/harness/model"
	"verif/harness/observe"
	"verif/harness/world"
)

// C15 — a read-only filesystem never changes the tape or the index.

type c15Params struct {
	NilWrite     bool `json:"nil_write"`
	MissingIndex bool `json:"missing_index"`
	Prefix       int  `json:"prefix_steps"` // the first Prefix steps populate a writable instance
	BlankDrive   bool `json:"blank_drive,omitempty"`
	BlankBlocks  int  `json:"blank_blocks,omitempty"`
	WrongKey     bool `json:"wrong_key"` // the read-only instance holds a different private key / signature key
}

var c15Mutators = map[string]bool{"create": true, "mkdir": true, "mkdirall": true, "remove": true, "removeall": true, "rename": true,
	"chmod": true, "chown": true, "chtimes": true, "symlink": true, "write": true, "writeat": true, "writestring": true, "truncate": true}

func c15Run(f failer, cfg world.Cfg, p c15Params, next func(i int, mr *hist.MRunner) (hist.Step, bool)) {
	live.J.Begin(hist.Case{Property: "C15", Cfg: cfg, Params: hist.Params{"c15": p}, Steps: []hist.Step{}})
	base, err := hist.NewRunner(cfg, world.Opts{})
	if err != nil {
		failf(f, "cannot build world: %v", err)
	}
	defer base.Finish()
	mr := hist.NewMRunner()
	var steps []hist.Step
	i := 0
	for ; i < p.Prefix; i++ {
		s, ok := next(i, mr)
		if !ok {
			break
		}
		live.J.Add(s)
		steps = append(steps, s)
		res := base.Do(s)
		if res.Hang != nil {
			busyIsInconclusive(f, res.Hang)
			failf(f, "populate step %d %s: %s", i, s, res.Hang.Detail)
		}
		mr.Do(s)
	}
	for sl := range base.Slots {
		if base.Slots[sl] != nil {
			c := hist.Step{Op: "close", Slot: sl}
			live.J.Add(c)
			base.Do(c)
			mr.Do(c)
		}
	}
	base.W.Close()

	// two copies: the read-only subject and its writable twin
	side := world.NewDir("c15")
	defer os.RemoveAll(side)
	mk := func(name string, ro bool) *hist.Runner {
		d := filepath.Join(side, name)
		_ = os.MkdirAll(filepath.Join(d, "drv"), 0700)
		drv, db := filepath.Join(d, "drv", "drive.tar"), filepath.Join(d, "index.sqlite")
		_ = world.CopyFile(drv, base.W.Drive)
		if !(p.MissingIndex && ro) {
			_ = world.CopyFile(db, base.W.DB)
		}
		o := world.Opts{Dir: d, Drive: drv, DB: db, ReadOnly: ro, NilWrite: ro && p.NilWrite, Stranger: ro && p.WrongKey}
		r, err := hist.NewRunner(cfg, o)
		if err != nil {
			checkObs(f, hangOnly(err), "construct "+name)
			failf(f, "cannot construct the %s instance: %v", name, err)
		}
		return r
	}
	if p.BlankDrive {
		// a drive that exists but holds nothing (no bytes, or zero blocks only): a read-only
		// instance may refuse to start, but leaves the drive and the (empty) index as they are
		d := filepath.Join(side, "blank")
		_ = os.MkdirAll(filepath.Join(d, "drv"), 0700)
		drv, db := filepath.Join(d, "drv", "drive.tar"), filepath.Join(d, "index.sqlite")
		blank := make([]byte, 512*p.BlankBlocks)
		_ = os.WriteFile(drv, blank, 0600)
		var w *world.World
		var err error
		checkObs(f, hist.Call("read-only over a blank drive", func() {
			w, err = world.New(cfg, world.Opts{Dir: d, Drive: drv, DB: db, ReadOnly: true, NilWrite: p.NilWrite})
		}), "open a blank drive read-only")
		if err != nil {
			failf(f, "cannot construct: %v", err)
		}
		after, _ := os.ReadFile(drv)
		rows, _ := observe.IndexDump(db)
		w.Close()
		if !bytes.Equal(after, blank) {
			failf(f, "opening a blank drive (%d zero blocks) read-only changed it to %d bytes (Initialize err=%v)", p.BlankBlocks, len(after), w.InitErr)
		}
		if len(rows) != 0 {
			failf(f, "opening a blank drive read-only put %d rows into the index (Initialize err=%v)", len(rows), w.InitErr)
		}
		live.S.Class("variant:blank-drive")
		live.S.Case(cfg.String(), true, live.J.Digest(), func() interface{} {
			return map[string]interface{}{"cfg": cfg.String(), "params": p}
		})
		live.S.Flush()
		return
	}
	tapeBefore, _ := os.ReadFile(base.W.Drive)
	ro := mk("ro", true)
	defer ro.Finish()
	if p.WrongKey && p.MissingIndex && (cfg.Encryption != "" || cfg.Signature != "") {
		// the tape cannot be indexed with these keys: Initialize may fail, but a read-only
		// instance must neither write a root record nor touch the (empty) index, nor panic
		after, _ := os.ReadFile(ro.W.Drive)
		if !bytes.Equal(after, tapeBefore) {
			failf(f, "opening the tape read-only with a key that cannot read it changed the tape (%d -> %d bytes, Initialize err=%v)", len(tapeBefore), len(after), ro.W.InitErr)
		}
		if rows, _ := observe.IndexDump(ro.W.DB); len(rows) != 0 && ro.W.InitErr != nil {
			failf(f, "a failed read-only Initialize left %d rows in the index", len(rows))
		}
		if ro.W.InitErr == nil {
			failf(f, "Initialize with a key that cannot read the tape reported success")
		}
		// the refused Initialize left the drive free: a retry and a call that reads the drive return
		var again error
		checkObs(f, hist.Call("Initialize again", func() { _, again = ro.W.FS.Initialize("/", os.ModePerm) }), "second Initialize after a refused one")
		if again == nil {
			failf(f, "the second Initialize with a key that cannot read the tape reported success")
		}
		checkObs(f, hist.Call("drive reader after refused Initialize", func() {
			if _, err := ro.W.Backend.GetReader(); err == nil {
				_ = ro.W.Backend.CloseReader()
			}
		}), "open the drive after a refused Initialize")
		if after, _ := os.ReadFile(ro.W.Drive); !bytes.Equal(after, tapeBefore) {
			failf(f, "retrying Initialize read-only with a key that cannot read the tape changed the tape")
		}
		live.S.Class("variant:wrong-key-open")
		live.S.Case(cfg.String(), true, live.J.Digest(), func() interface{} {
			return map[string]interface{}{"cfg": cfg.String(), "params": p}
		})
		live.S.Flush()
		return
	}
	if ro.W.InitErr != nil {
		failf(f, "read-only instance does not initialise over an existing tape: %v", ro.W.InitErr)
	}
	twin := mk("twin", false)
	defer twin.Finish()
	sum := func(r *hist.Runner) [32]byte { b, _ := os.ReadFile(r.W.Drive); return sha256.Sum256(b) }
	if sum(ro) != sha256.Sum256(tapeBefore) {
		failf(f, "opening the tape read-only changed it")
	}
	dump := func() string { rows, _ := observe.IndexDump(ro.W.DB); return observe.DumpString(rows) }
	idx0 := dump()
	if !p.MissingIndex {
		rows, _ := observe.IndexDump(base.W.DB)
		if observe.DumpString(rows) != idx0 {
			failf(f, "opening an existing index read-only changed it")
		}
	}
	tape0 := sum(ro)

	frozen := mr.M
	romr := &hist.MRunner{M: frozen.Clone()}
	mutAttempted := map[string]bool{}
	readsCompared := 0
	for ; ; i++ {
		romr.M = frozen.Clone()
		s, ok := next(i, romr)
		if !ok {
			break
		}
		live.J.Add(s)
		steps = append(steps, s)
		res := ro.Do(s)
		if res.Hang != nil {
			busyIsInconclusive(f, res.Hang)
			failf(f, "step %d %s on the read-only instance: %s", i, s, res.Hang.Detail)
		}
		if res.Skipped {
			continue
		}
		live.S.Class("ro:" + s.Op)
		if sum(ro) != tape0 {
			failf(f, "step %d %s (err=%v) changed the tape of a read-only filesystem", i, s, res.Err)
		}
		if d := dump(); d != idx0 {
			failf(f, "step %d %s (err=%v) changed the index of a read-only filesystem:\nbefore:\n%s\nafter:\n%s", i, s, res.Err, idx0, d)
		}
		if c15Mutators[s.Op] {
			mutAttempted[s.Op] = true
			dirHandle := false
			if sl := ro.Slots[s.Slot]; sl != nil && (s.Op == "write" || s.Op == "writeat" || s.Op == "writestring" || s.Op == "truncate") {
				hp := hist_clean(sl.Path)
				if tgt, ok := mr.Links[hp]; ok {
					hp = tgt // the handle was opened through a link to a directory
				}
				if n := frozen.Get(hp); n != nil && n.Kind == "dir" {
					dirHandle = true
				}
			}
			if res.Err == nil {
				failf(f, "step %d: mutating call %s succeeded on a read-only filesystem", i, s)
			}
			if !errors.Is(res.Err, os.ErrPermission) && !dirHandle {
				failf(f, "step %d: mutating call %s failed with %q, not with a permission error", i, s, res.Err)
			}
		}
		// mirror handle bookkeeping for the generator
		switch s.Op {
		case "open", "openfile", "create":
			if res.Err == nil && ro.Slots[s.Slot] != nil {
				romrSlot(romr, s.Slot, frozen, s.Path)
			}
		case "close":
			romr.Slots[s.Slot] = nil
			romr.Streaming[s.Slot] = false
		case "read", "readat", "seek":
			romr.Streaming[s.Slot] = true
		}
		// read calls return what a writable instance over the same data returns
		writeOnly := false
		switch s.Op {
		case "read", "readat", "seek", "fstat":
			if sl := ro.Slots[s.Slot]; sl != nil && sl.Flag&(os.O_WRONLY|os.O_RDWR) == os.O_WRONLY {
				writeOnly = true // no read access was asked for: nothing to compare with a reader
			}
		}
		switch s.Op {
		case "stat", "list", "open", "read", "readat", "seek", "fstat", "close", "openfile":
			if writeOnly {
				break
			}
			ts := s
			if s.Op == "openfile" {
				// the twin opens for reading only: the comparison is about what is read
				ts.Op, ts.Flag = "open", 0
				if res.Err != nil {
					break
				}
			}
			tres := twin.Do(ts)
			if tres.Hang != nil {
				busyIsInconclusive(f, tres.Hang)
				failf(f, "twin: %s", tres.Hang.Detail)
			}
			if s.Op == "openfile" {
				break
			}
			if (res.Err != nil) != (tres.Err != nil) {
				failf(f, "step %d %s: read-only instance err=%v, writable twin err=%v", i, s, res.Err, tres.Err)
			}
			if res.Err == nil {
				if d := compareReads(s, res, tres); d != "" {
					failf(f, "step %d %s: read-only instance and writable twin disagree: %s", i, s, d)
				}
				readsCompared++
			}
		}
	}
	// whole-tree comparison at the end
	for sl := range ro.Slots {
		if ro.Slots[sl] != nil {
			ro.Do(hist.Step{Op: "close", Slot: sl})
		}
		if twin.Slots[sl] != nil {
			twin.Do(hist.Step{Op: "close", Slot: sl})
		}
	}
	a, e := observe.Snapshot(hist.Call, ro.W.FS, true)
	checkObs(f, e, "snapshot ro")
	b, e := observe.Snapshot(hist.Call, twin.W.FS, true)
	checkObs(f, e, "snapshot twin")
	if d := observe.Diff("read-only", a, "writable-twin", b, true); d != "" {
		failf(f, "the read-only instance shows a different filesystem than a writable one over the same data:\n%s", d)
	}
	readsCompared++
	if sum(ro) != tape0 || dump() != idx0 {
		failf(f, "walking the read-only filesystem changed tape or index")
	}
	nt := len(mutAttempted) >= 5 && readsCompared >= 1
	var ss []string
	for _, s := range steps {
		ss = append(ss, s.String())
	}
	live.S.Class(fmt.Sprintf("variant:nilwrite=%v,missingindex=%v", p.NilWrite, p.MissingIndex))
	live.S.AddSteps(len(steps))
	live.S.Case(cfg.String(), nt, live.J.Digest(), func() interface{} {
		return map[string]interface{}{"cfg": cfg.String(), "params": p, "steps": ss}
	})
	live.S.Flush()
}

func romrSlot(romr *hist.MRunner, slot int, m *model.FS, p string) {
	romr.Slots[slot] = model.NewHandle(m, p, true, true)
}

func isRootName(n string) bool { return n == "/" || n == "." || n == "" }

func compareReads(s hist.Step, a, b hist.Res) string {
	switch s.Op {
	case "open", "stat", "fstat":
		// (the root calls itself "/" under a live index and "." under a rebuilt one: DESIGN §6.1)
		// and a rebuilt index spells names relative to the root where the live one spells them absolute
		an, bn := a.Name, b.Name
		if s.Op == "open" {
			an, bn = observe.Clean(an), observe.Clean(bn)
		}
		if an != bn && !(isRootName(a.Name) && isRootName(b.Name)) {
			return fmt.Sprintf("the entry calls itself %q vs %q", a.Name, b.Name)
		}
	}
	switch s.Op {
	case "read", "readat":
		if a.N != b.N || !bytes.Equal(a.Data, b.Data) || a.EOF != b.EOF {
			return fmt.Sprintf("read %d bytes eof=%v vs %d bytes eof=%v", a.N, a.EOF, b.N, b.EOF)
		}
	case "seek":
		if a.Off != b.Off {
			return fmt.Sprintf("offset %d vs %d", a.Off, b.Off)
		}
	case "stat", "fstat":
		if a.Info != nil && b.Info != nil && (a.Info.Kind != b.Info.Kind || a.Info.Size != b.Info.Size || a.Info.Perm != b.Info.Perm || a.Info.Mtime != b.Info.Mtime) {
			return fmt.Sprintf("%+v vs %+v", *a.Info, *b.Info)
		}
	case "list":
		x, y := append([]string(nil), a.Names...), append([]string(nil), b.Names...)
		sort.Strings(x)
		sort.Strings(y)
		if s.N <= 0 && strings.Join(x, "\x00") != strings.Join(y, "\x00") {
			return fmt.Sprintf("%q vs %q", x, y)
		}
		if len(x) != len(y) {
			return fmt.Sprintf("%d vs %d entries", len(x), len(y))
		}
	}
	return ""
}

var c15Weights = map[string]int{
	"create": 3, "openfile": 8, "open": 5, "write": 4, "writeat": 2, "writestring": 2, "truncate": 2, "sync": 1, "close": 5,
	"read": 5, "readat": 2, "seek": 3, "fstat": 1,
	"mkdir": 3, "mkdirall": 2, "remove": 3, "removeall": 3, "rename": 3, "chmod": 2, "chown": 2, "chtimes": 2, "symlink": 2, "stat": 3, "list": 3,
}

// the populating phase is an ordinary history plus symbolic links (a read-only instance
// resolves them like a writable one)
var c15PopulateWeights = func() map[string]int {
	m := map[string]int{"symlink": 4}
	for k, v := range fsWeights {
		m[k] = v
	}
	return m
}()

func c15Avoid(s hist.Step, mr *hist.MRunner) string {
	// interpretation: the drive stays locked while a read stream is half consumed (finding
	// F-11); the read-only phase issues no tape writes, so nothing needs steering here.
	switch s.Op {
	case "readat":
		if s.N == 0 && s.Off < 0 {
			return "interp:empty-ReadAt-at-negative-offset"
		}
	}
	// finding F-11: a half-consumed read stream keeps the drive, and the next call that
	// needs it - also a read through another handle - blocks forever. While it is open,
	// reads are generated with a buffer larger than the file and no seeks are issued.
	if guard("F-11") {
		switch s.Op {
		case "read", "readat", "seek":
			for t := range mr.Streaming {
				if t != s.Slot && mr.Streaming[t] {
					return "F-11" // another handle may hold a half-consumed stream
				}
			}
		}
	}
	return ""
}

func TestC15(t *testing.T) {
	rapid.Check(t, func(t *rapid.T) {
		cfg := hist.DrawCfg(t, 60, nil)
		p := c15Params{NilWrite: rapid.Bool().Draw(t, "nil_write"), MissingIndex: rapid.Bool().Draw(t, "missing_index"), Prefix: rapid.IntRange(0, 10).Draw(t, "prefix")}
		if rapid.IntRange(0, 19).Draw(t, "blank-drive") == 0 {
			p.BlankDrive, p.BlankBlocks = true, rapid.SampledFrom([]int{0, 0, 2, 20, 40}).Draw(t, "blank-blocks")
		}
		if p.MissingIndex && (cfg.Encryption != "" || cfg.Signature != "") && rapid.IntRange(0, 2).Draw(t, "wrongkey") == 0 {
			p.WrongKey = true
		}
		gp := hist.NewGen(t, c15PopulateWeights, hist.Universe, 4, cfg.RecordSize).WithSuffixNames(t, cfg)
		gp.Avoid = f33Avoid(cfg, avoidFor("C15"))
		gr := hist.NewGen(t, c15Weights, hist.Universe, 4, cfg.RecordSize).WithSuffixNames(t, cfg)
		gr.Comps = gp.Comps
		gr.Avoid = f33Avoid(cfg, c15Avoid)
		if guard("F-33") && cfg.Compression == "parallelbzip2" && cfg.Encryption == "pgp" {
			gp.MaxSize = 90000
		}
		n := rapid.IntRange(1, *maxSteps).Draw(t, "nsteps")
		c15Run(t, cfg, p, func(i int, mr *hist.MRunner) (hist.Step, bool) {
			if i < p.Prefix {
				return gp.Draw(t, mr), true
			}
			if i >= p.Prefix+n {
				return hist.Step{}, false
			}
			return gr.Draw(t, mr), true
		})
	})
}

func init() {
	customReplays["C15"] = func(t *testing.T, c *hist.Case, path string) {
		var p c15Params
		remarshal(c.Params["c15"], &p)
		// the journal holds the populate steps, the closes issued after them, then the read-only steps
		j := 0
		c15Run(t, c.Cfg, p, func(i int, mr *hist.MRunner) (hist.Step, bool) {
			if i == p.Prefix {
				// skip the journaled closes that c15Run issues itself
				for j < len(c.Steps) && j >= p.Prefix && c.Steps[j].Op == "close" && mr.Slots[c.Steps[j].Slot] == nil {
					j++
				}
			}
			if j >= len(c.Steps) {
				return hist.Step{}, false
			}
			s := c.Steps[j]
			j++
			return s, true
		})
	}
}
