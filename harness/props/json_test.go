package props

import "encoding/json"

func jsonMarshal(v interface{}) ([]byte, error)   { return json.Marshal(v) }
func jsonUnmarshal(b []byte, v interface{}) error { return json.Unmarshal(b, v) }
