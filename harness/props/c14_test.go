package props

import (
	"bytes"
	"fmt"
	"os"
	"testing"

	"pgregory.net/rapid"
	"verif/harness/hist"
	"verif/harness/live"
	"verif/harness/observe"
)

// C14 — an open file behaves like a byte array with a cursor.
type c14 struct {
	reads, seeks, writes int
	relSeek              bool
	path                 string
}

func (o *c14) Before(x *hctx, s hist.Step) {}

func (o *c14) After(x *hctx, s hist.Step, res hist.Res, mres hist.MRes) string {
	if res.Skipped || mres.DontCare {
		return ""
	}
	if s.Op == "create" || s.Op == "openfile" {
		o.path = hist_clean(s.Path)
	}
	if (res.Err != nil) != (mres.Err != "") {
		return fmt.Sprintf("outcome differs: implementation err=%v, byte-array reference %s", res.Err, orOK(mres.Err))
	}
	if res.Err != nil {
		return ""
	}
	switch s.Op {
	case "read", "readat":
		o.reads++
		if res.N != mres.N || !bytes.Equal(res.Data, mres.Data) {
			return fmt.Sprintf("returned %d bytes %q, reference %d bytes %q", res.N, clip(res.Data), mres.N, clip(mres.Data))
		}
		atEnd := false
		if h := x.mr.Slots[s.Slot]; h != nil {
			atEnd = (s.Op == "read" && h.Pos >= h.Size()) || (s.Op == "readat" && s.Off+int64(res.N) >= h.Size())
		}
		if res.EOF && !mres.EOF && atEnd && res.N > 0 {
			// io.Reader allows reporting EOF together with the last bytes
		} else if s.Op == "readat" && mres.EOF && !res.EOF && res.N > 0 {
			// a short ReadAt: os.File reports io.EOF, afero's mem.File does not
		} else if res.EOF != mres.EOF {
			return fmt.Sprintf("end-of-file signalling differs: implementation EOF=%v (n=%d), reference EOF=%v", res.EOF, res.N, mres.EOF)
		}
	case "seek":
		o.seeks++
		if s.Whence != 0 {
			o.relSeek = true
		}
		if res.Off != mres.Off {
			return fmt.Sprintf("Seek returned offset %d, reference %d", res.Off, mres.Off)
		}
	case "write", "writestring", "writeat":
		o.writes++
		if res.N != mres.N {
			return fmt.Sprintf("write count %d, reference %d", res.N, mres.N)
		}
	case "fstat":
		if res.Info != nil && res.Info.Size != mres.Off {
			return fmt.Sprintf("handle Stat size %d, reference %d", res.Info.Size, mres.Off)
		}
	}
	return ""
}

func clip(b []byte) []byte {
	if len(b) > 24 {
		return append(append([]byte{}, b[:24]...), '.', '.')
	}
	return b
}

func (o *c14) End(x *hctx) string {
	for i, sl := range x.r.Slots {
		if sl != nil {
			res := x.r.Do(hist.Step{Op: "close", Slot: i})
			if res.Hang != nil {
				checkObs(x.f, res.Hang, "close")
			}
			x.mr.Do(hist.Step{Op: "close", Slot: i})
			if res.Err != nil {
				return fmt.Sprintf("Close failed: %v", res.Err)
			}
		}
	}
	if o.path == "" {
		return ""
	}
	n := x.mr.M.Get(o.path)
	if n == nil {
		return ""
	}
	data, err := observe.ReadAll(hist.Call, x.r.W.FS, o.path)
	checkObs(x.f, hangOnly(err), "final read")
	if err != nil {
		return fmt.Sprintf("fresh open after close cannot read: %v", err)
	}
	if !bytes.Equal(data, n.Content) {
		return fmt.Sprintf("after close a fresh open reads %d bytes %q, the reference holds %d bytes %q (first difference at %d)", len(data), clip(data), len(n.Content), clip(n.Content), firstDiff(data, n.Content))
	}
	var fi os.FileInfo
	checkObs(x.f, hist.Call("Stat", func() { fi, err = x.r.W.FS.Stat(o.path) }), "stat")
	if err != nil || fi.Size() != int64(len(n.Content)) {
		return fmt.Sprintf("Stat after close: size=%v err=%v, reference length %d", sizeOf(fi), err, len(n.Content))
	}
	// the handle wrote to its own file only: every other file still reads as the reference says
	for p, other := range x.mr.M.Nodes {
		if p == o.path || other.Kind != "file" {
			continue
		}
		data, err := observe.ReadAll(hist.Call, x.r.W.FS, p)
		checkObs(x.f, hangOnly(err), "final read of sibling")
		if err != nil || !bytes.Equal(data, other.Content) {
			return fmt.Sprintf("sibling %q reads %d bytes %q (err %v) after the handle on %q was closed, the reference holds %d bytes %q", p, len(data), clip(data), err, o.path, len(other.Content), clip(other.Content))
		}
	}
	return ""
}

func (o *c14) Nontrivial(x *hctx) bool {
	return (o.reads >= 1 && o.seeks >= 1 && o.writes >= 1) || o.relSeek
}

func init() { historyOracles["C14"] = func() oracle { return &c14{} } }

var c14Weights = map[string]int{
	"read": 8, "readat": 4, "seek": 8, "write": 6, "writeat": 3, "writestring": 2, "truncate": 3, "fstat": 2, "sync": 1,
}

func TestC14(t *testing.T) {
	rapid.Check(t, func(t *rapid.T) {
		cfg := hist.DrawCfg(t, 50, nil)
		g := hist.NewGen(t, c14Weights, hist.Universe, 2, cfg.RecordSize).WithSuffixNames(t, cfg)
		g.Avoid = f33Avoid(cfg, avoidFor("C14"))
		g.HugeTruncates = cfg.Compression == "" && cfg.Encryption == ""
		if guard("F-33") && cfg.Compression == "parallelbzip2" && cfg.Encryption == "pgp" {
			g.MaxSize = 90000
		}
		// prologue: a file with initial content of 0..3 records, then the handle under test
		var init hist.Step
		init.Op = "write"
		initSize := rapid.SampledFrom([]int{0, 0, 1, 5, 511, 512, 513, 1000, cfg.RecordSize * 512, cfg.RecordSize*512 + 1, 3*cfg.RecordSize*512 + 17}).Draw(t, "init_size")
		if initSize > g.MaxSize {
			initSize = g.MaxSize
		}
		init.Size, init.Dist, init.Seed = initSize, rapid.IntRange(1, 3).Draw(t, "init_dist"), rapid.Uint64Range(0, 1000).Draw(t, "init_seed")
		// a quarter of the cases build the instance the way `serve ftp` does: write permission
		// implies read permission, write-only handles can be read
		if rapid.IntRange(0, 3).Draw(t, "wpir") == 0 {
			cfg.WPIR = true
			live.S.Class("write_perm_implies_read_perm")
		}
		exists := rapid.IntRange(0, 9).Draw(t, "exists") > 0
		flag := rapid.SampledFrom([]int{os.O_RDONLY, os.O_WRONLY, os.O_RDWR, os.O_RDWR, os.O_RDWR}).Draw(t, "acc")
		for _, b := range []int{os.O_CREATE, os.O_TRUNC, os.O_APPEND} {
			if rapid.IntRange(0, 3).Draw(t, "flagbit") == 0 {
				flag |= b
			}
		}
		if flag&(os.O_WRONLY|os.O_RDWR) == 0 {
			flag &^= os.O_TRUNC
		}
		if !exists {
			flag |= os.O_CREATE
		}
		// the file's name: plain, or (a third of the cases under a pipeline with a suffix)
		// ending in that suffix, with or without its stem as a sibling
		name := "/f"
		var pro []hist.Step
		if cs, es := hist.PipelineSuffix(cfg); cs+es != "" && rapid.IntRange(0, 2).Draw(t, "suffixname") == 0 {
			name = "/f" + cs + es
			if rapid.Bool().Draw(t, "stem_sibling") {
				pro = append(pro, hist.Step{Op: "create", Path: "/f", Slot: 1}, hist.Step{Op: "write", Slot: 1, Size: 7, Dist: 3, Seed: 1}, hist.Step{Op: "close", Slot: 1})
			}
			live.S.Class("name_ends_in_pipeline_suffix")
		}
		if exists {
			pro = append(pro, hist.Step{Op: "create", Path: name, Slot: 0}, init, hist.Step{Op: "close", Slot: 0})
		}
		pro = append(pro, hist.Step{Op: "openfile", Path: name, Slot: 0, Flag: flag, Perm: 0644})
		n := rapid.IntRange(1, *maxSteps).Draw(t, "nsteps")
		runCase(t, "C14", cfg, nil, &c14{}, worldOptsNone, func(x *hctx, i int) (hist.Step, bool) {
			if i < len(pro) {
				return pro[i], true
			}
			if i >= len(pro)+n {
				return hist.Step{}, false
			}
			return g.Draw(t, x.mr), true
		})
	})
}
