package props

import (
	"fmt"
	"os"
	"path/filepath"
	"testing"

	"pgregory.net/rapid"
	"verif/harness/hist"
	"verif/harness/live"
	"verif/harness/observe"
	"verif/harness/world"
)

// C01 — the index is a pure function of the tape (rebuild / reopen equivalence).
type c01 struct {
	checked   int
	perName   map[string]int // records written per name
	nontrivAt int
}

// snapshotOf builds a side world and returns its snapshot.
func sideSnapshot(f failer, cfg world.Cfg, opts world.Opts, what string) (*observe.Snap, error, *world.World) {
	var w *world.World
	var err error
	if e := hist.Call("construct "+what, func() { w, err = world.New(cfg, opts) }); e != nil {
		checkObs(f, e, "construct "+what)
	}
	if err != nil {
		return nil, err, nil
	}
	if w.InitErr != nil {
		w.Close()
		return nil, fmt.Errorf("Initialize: %w", w.InitErr), nil
	}
	s, e := observe.Snapshot(hist.Call, w.FS, true)
	checkObs(f, e, "snapshot of "+what)
	return s, nil, w
}

// rebuildEquivalence compares the live instance with a reopened one (same index) and a
// rebuilt one (empty index, copy of the drive).
func rebuildEquivalence(x *hctx) string {
	liveSnap, e := observe.Snapshot(hist.Call, x.r.W.FS, true)
	checkObs(x.f, e, "snapshot of the live instance")
	if len(liveSnap.Errs) > 0 {
		// a malformed tree is C13's business unless the reconstructions disagree on it
		_ = liveSnap
	}
	side := world.NewDir("side")
	defer os.RemoveAll(side)

	// (a) reopen over the same index file and drive
	sa, err, wa := sideSnapshot(x.f, x.cfg, world.Opts{Dir: filepath.Join(side, "a"), Drive: x.r.W.Drive, DB: x.r.W.DB}, "reopened instance")
	if err != nil {
		return "reopening the existing index failed: " + err.Error()
	}
	wa.Close()
	if d := observe.Diff("live", liveSnap, "reopened", sa, true); d != "" {
		return "a fresh instance over the same index shows a different filesystem:\n" + d
	}

	// (b) rebuild from the tape alone (a copy of the drive, an empty index)
	bdir := filepath.Join(side, "b")
	_ = os.MkdirAll(filepath.Join(bdir, "drv"), 0700)
	drv := filepath.Join(bdir, "drv", "drive.tar")
	if err := world.CopyFile(drv, x.r.W.Drive); err != nil {
		return "copy drive: " + err.Error()
	}
	before, _ := os.ReadFile(drv)
	sb, err, wb := sideSnapshot(x.f, x.cfg, world.Opts{Dir: bdir, Drive: drv}, "rebuilt instance")
	if err != nil {
		return "rebuilding the index from the tape failed: " + err.Error()
	}
	wb.Close()
	after, _ := os.ReadFile(drv)
	if len(after) != len(before) {
		return fmt.Sprintf("rebuilding the index changed the tape copy (%d -> %d bytes): the rebuild did not succeed from the tape alone", len(before), len(after))
	}
	if d := observe.Diff("live", liveSnap, "rebuilt", sb, true); d != "" {
		return "an index rebuilt from the tape alone shows a different filesystem:\n" + d
	}
	return ""
}

func (o *c01) Before(x *hctx, s hist.Step) {}

func (o *c01) After(x *hctx, s hist.Step, res hist.Res, mres hist.MRes) string {
	if res.Skipped || !hist.Mutating(s.Op) {
		return ""
	}
	if o.perName == nil {
		o.perName = map[string]int{}
	}
	if res.Err == nil {
		for _, p := range []string{s.Path, s.Path2} {
			if p != "" {
				o.perName[hist_clean(p)]++
			}
		}
		if s.Op == "close" || s.Op == "sync" {
			o.perName[fmt.Sprintf("slot%d", s.Slot)]++
		}
	}
	o.checked++
	live.S.AddInner(2)
	return rebuildEquivalence(x)
}

func (o *c01) End(x *hctx) string { return "" }

func (o *c01) Nontrivial(x *hctx) bool {
	multi := false
	for _, n := range o.perName {
		if n >= 2 {
			multi = true
		}
	}
	return multi && o.checked >= 2 && (x.labels["has-move"] || x.labels["has-delete"] || x.labels["has-content-commit"] || x.labels["has-metadata-only"])
}

var c01Weights = map[string]int{
	"create": 6, "openfile": 4, "write": 8, "writestring": 2, "sync": 1, "close": 8,
	"mkdir": 6, "mkdirall": 3, "remove": 4, "removeall": 3, "rename": 7,
	"chmod": 2, "chown": 2, "chtimes": 2, "reopen": 1, "rebuild": 1, "symlink": 2,
	"arch_archive": 3, "arch_update": 3, "arch_delete": 2, "arch_move": 2,
}

func init() {
	historyOracles["C01"] = func() oracle { return &c01{} }
}

func TestC01(t *testing.T) {
	rapid.Check(t, func(t *rapid.T) {
		cfg := hist.DrawCfg(t, 40, nil)
		rapidHistory(t, "C01", cfg, c01Weights, hist.Universe, &c01{}, avoidFor("C01"))
	})
}
