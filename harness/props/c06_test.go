package props

import (
	"archive/tar"
	"fmt"
	"os"
	"path/filepath"
	"sort"
	"strings"
	"testing"

	"github.com/pojntfx/stfs/pkg/config"
	"pgregory.net/rapid"
	"verif/harness/hist"
	"verif/harness/live"
	"verif/harness/observe"
	"verif/harness/world"
)

// C06 — a torn tail never costs more than the torn record.

type c06 struct {
	probe      *world.Probe
	prevLen    int64
	boundaries map[int64]bool // offsets between two writes issued to the drive
	callEnds   map[int64]*observe.Snap
	cuts       int
	inside     int
	exhaustive bool
}

func (o *c06) Before(x *hctx, s hist.Step) {
	st, err := os.Stat(x.r.W.Drive)
	o.prevLen = 0
	if err == nil {
		o.prevLen = st.Size()
	}
	o.probe.Reset()
}

func (o *c06) After(x *hctx, s hist.Step, res hist.Res, mres hist.MRes) string {
	if res.Skipped || !hist.Mutating(s.Op) {
		return ""
	}
	if o.boundaries == nil {
		o.boundaries = map[int64]bool{}
		o.callEnds = map[int64]*observe.Snap{}
	}
	_, writes, _ := o.probe.Snapshot()
	off := o.prevLen
	for _, n := range writes {
		off += int64(n)
		o.boundaries[off] = true
	}
	st, err := os.Stat(x.r.W.Drive)
	if err != nil {
		return ""
	}
	if st.Size() != o.prevLen && len(x.r.OpenPaths()) == 0 {
		snap, e := observe.Snapshot(hist.Call, x.r.W.FS, true)
		checkObs(x.f, e, "snapshot")
		o.callEnds[st.Size()] = snap
	}
	return ""
}

var knownSuffixes = []string{".gz", ".lz4", ".zst", ".br", ".bz2", ".age", ".pgp"}

// addressedNames: the entries a record addresses (its name, stripped of pipeline suffixes,
// and the name it replaces).
func addressedNames(h *tar.Header) map[string]bool {
	out := map[string]bool{}
	add := func(n string) {
		n = observe.Clean(n)
		out[n] = true
		for i := 0; i < 2; i++ {
			for _, s := range knownSuffixes {
				if strings.HasSuffix(n, s) {
					n = strings.TrimSuffix(n, s)
					out[n] = true
				}
			}
		}
	}
	add(h.Name)
	if h.Linkname != "" {
		add(h.Linkname)
	}
	if r, ok := h.PAXRecords["STFS.ReplacesName"]; ok {
		add(r)
	}
	return out
}

// rebuildCut rebuilds an index from the first n bytes of raw and returns what it shows.
func rebuildCut(f failer, cfg world.Cfg, dir string, raw []byte, n int64, tag string) (*observe.Snap, error) {
	d := filepath.Join(dir, tag)
	_ = os.MkdirAll(filepath.Join(d, "drv"), 0700)
	drv := filepath.Join(d, "drv", "drive.tar")
	_ = os.WriteFile(drv, raw[:n], 0600)
	w := worldOver(f, cfg, d, drv, filepath.Join(d, "index.sqlite"), false)
	defer func() { w.Close(); os.RemoveAll(d) }()
	var ierr error
	checkObs(f, hist.Call(fmt.Sprintf("recovery.Index over the first %d bytes", n), func() { ierr = w.Reindex(true, nil) }), fmt.Sprintf("index rebuild of a tape cut at byte %d", n))
	snap, e := observe.Snapshot(hist.Call, w.FS, true)
	checkObs(f, e, fmt.Sprintf("reading the filesystem rebuilt from a tape cut at byte %d", n))
	after, _ := os.ReadFile(drv)
	if int64(len(after)) != n {
		failf(f, "rebuilding the index changed the (cut) tape from %d to %d bytes", n, len(after))
	}
	return snap, ierr
}

func diffExcept(a, b *observe.Snap, except map[string]bool) string {
	fa, fb := &observe.Snap{}, &observe.Snap{}
	for _, e := range a.Entries {
		if !except[e.Path] {
			fa.Entries = append(fa.Entries, e)
		}
	}
	for _, e := range b.Entries {
		if !except[e.Path] {
			fb.Entries = append(fb.Entries, e)
		}
	}
	return observe.Diff("state-after-last-complete-record", fa, "state-after-cut", fb, true)
}

func (o *c06) End(x *hctx) string {
	for i, sl := range x.r.Slots {
		if sl != nil {
			o.Before(x, hist.Step{})
			res := x.r.Do(hist.Step{Op: "close", Slot: i})
			if res.Hang != nil {
				failf(x.f, "%s", res.Hang.Detail)
			}
			o.After(x, hist.Step{Op: "close", Slot: i}, res, hist.MRes{})
		}
	}
	raw := x.r.W.TapeBytes()
	total := int64(len(raw))
	sc := observe.TapeScan(raw, x.cfg.RecordSize, false)
	if len(sc.Problems) > 0 {
		return fmt.Sprintf("the intact tape does not scan: %v", sc.Problems)
	}
	// the names each record addresses (through the real decrypt/verify path)
	var hdrs []*tar.Header
	var qerr error
	checkObs(x.f, hist.Call("Query", func() { hdrs, qerr = x.r.W.QueryTape(func(*config.Header) {}) }), "query")
	if qerr != nil || len(hdrs) != len(sc.Members) {
		return fmt.Sprintf("cannot list the records of the intact tape: %v (%d vs %d)", qerr, len(hdrs), len(sc.Members))
	}
	// record ends
	ends := []int64{0}
	for _, m := range sc.Members {
		ends = append(ends, m.End)
	}
	// cut points
	cutset := map[int64]bool{}
	add := func(c int64) {
		if c >= 0 && c <= total {
			cutset[c] = true
		}
	}
	if total <= int64(*exhaustiveBelow) {
		o.exhaustive = true
		for c := int64(0); c <= total; c++ {
			add(c)
		}
	} else {
		for b := range o.boundaries {
			add(b)
			add(b - 1)
			add(b + 1)
		}
		for c := int64(0); c <= total; c += 512 {
			add(c)
		}
		must := map[int64]bool{}
		for _, m := range sc.Members {
			// inside the last header block of a member (behind its PAX data)
			for _, c := range []int64{m.DataOff - 1, m.DataOff - 200, m.DataOff - 511} {
				if c > m.Off {
					add(c)
					must[c] = true
				}
			}
			add(m.Off + 1)
			add(m.Off + 511)
			add(m.DataOff)
			add(m.DataOff + 1)
			add((m.DataOff + m.End) / 2)
			add(m.End - 1)
			add(m.End + 1)
		}
		// cap the number of points per history: keep boundaries, thin out the 512-grid
		if len(cutset) > *maxCuts {
			var all []int64
			for c := range cutset {
				all = append(all, c)
			}
			sort.Slice(all, func(i, j int) bool { return all[i] < all[j] })
			keep := map[int64]bool{}
			step := float64(len(all)) / float64(*maxCuts)
			for i := 0.0; int(i) < len(all); i += step {
				keep[all[int(i)]] = true
			}
			for b := range o.boundaries {
				keep[b] = true
			}
			for c := range must {
				keep[c] = true
			}
			keep[total] = true
			cutset = keep
		}
	}
	var cuts []int64
	for c := range cutset {
		cuts = append(cuts, c)
	}
	sort.Slice(cuts, func(i, j int) bool { return cuts[i] < cuts[j] })
	side := world.NewDir("c06")
	defer os.RemoveAll(side)
	baseline := map[int]*observe.Snap{}
	for _, ell := range cuts {
		// surrounding complete-record ends: ends[j] <= ell < ends[j+1]
		j := sort.Search(len(ends), func(i int) bool { return ends[i] > ell }) - 1
		if _, ok := baseline[j]; !ok {
			b, _ := rebuildCut(x.f, x.cfg, side, raw, ends[j], "base")
			baseline[j] = b
		}
		got, _ := rebuildCut(x.f, x.cfg, side, raw, ell, "cut")
		o.cuts++
		live.S.AddInner(1)
		except := map[string]bool{}
		where := "between records"
		if j < len(sc.Members) && ell > ends[j] {
			m := sc.Members[j]
			except = addressedNames(hdrs[j])
			switch {
			case ell < m.DataOff:
				where = "inside a header"
			case ell < m.End:
				where = "inside content or padding"
			}
			if ell < m.End {
				o.inside++
			}
		} else if j == len(sc.Members) && ell > ends[j] {
			where = "inside the trailer"
		}
		live.S.Class("cut:" + where)
		if d := diffExcept(baseline[j], got, except); d != "" {
			return fmt.Sprintf("tape cut at byte %d (%s; last complete record ends at %d): entries other than the one addressed by the torn record %v differ:\n%s", ell, where, ends[j], sortedKeys(except), d)
		}
		// a record torn inside its content is a create or a content update: the entry it addresses
		// was there after the last complete record or not, and a cut does not take it away
		if where == "inside content or padding" {
			for p := range except {
				if be, had := baseline[j].Get(p); had {
					if ge, ok := got.Get(p); !ok || ge.Kind != be.Kind {
						return fmt.Sprintf("tape cut at byte %d (%s): %s existed after the last complete record (ends at %d), the torn record only rewrites it, but the rebuilt index no longer lists it (present=%v)", ell, where, p, ends[j], ok)
					}
				}
			}
		}
		// the torn entry: an error, or exactly its last complete content
		for p := range except {
			ge, ok := got.Get(p)
			if !ok || ge.Kind != "file" {
				continue
			}
			if ge.ReadErr != "" {
				continue
			}
			be, had := baseline[j].Get(p)
			if had && be.SHA == ge.SHA && be.Len == ge.Len {
				continue
			}
			// a complete content record followed by a cut in the padding/trailer is complete content
			if j < len(sc.Members) && ell >= sc.Members[j].DataOff+int64(hdrSize(hdrs[j], sc.Members[j])) {
				continue
			}
			return fmt.Sprintf("tape cut at byte %d (%s): reading the torn entry %s returned %d bytes (sha %s) with a nil error; its last complete content had %d bytes (sha %s)", ell, where, p, ge.Len, ge.SHA, be.Len, be.SHA)
		}
		// ground truth at call boundaries
		if snap, ok := o.callEnds[ell]; ok {
			if d := observe.Diff("live-after-the-call", snap, "rebuilt-from-the-tape-so-far", got, true); d != "" {
				return fmt.Sprintf("tape cut exactly after a call (byte %d): the rebuilt state is not the state the running instance showed:\n%s", ell, d)
			}
		}
	}
	return ""
}

// hdrSize is the number of body bytes the tape member declares.
func hdrSize(h *tar.Header, m observe.Member) int64 { return m.Hdr.Size }

func (o *c06) Nontrivial(x *hctx) bool {
	if o.exhaustive {
		live.S.Class("exhaustive-over-every-byte")
	}
	return o.inside >= 1 && o.cuts >= 10
}

func init() {
	historyOracles["C06"] = func() oracle { busyIsViolation = true; return &c06{probe: sharedProbe} }
}

var sharedProbe = &world.Probe{}

var c06Weights = map[string]int{
	"create": 6, "openfile": 2, "write": 8, "writestring": 1, "close": 8,
	"mkdir": 4, "mkdirall": 2, "remove": 3, "removeall": 2, "rename": 5,
	"chmod": 2, "chown": 1, "chtimes": 2,
	"arch_archive": 4, "arch_update": 3, "arch_delete": 2, "arch_move": 2,
}

func TestC06(t *testing.T) {
	busyIsViolation = true
	rapid.Check(t, func(t *rapid.T) {
		cfg := hist.DrawCfg(t, 35, []int{1, 2, 3, 7, 20})
		g := hist.NewGen(t, c06Weights, hist.Universe[:13], 3, cfg.RecordSize).WithSuffixNames(t, cfg)
		g.Avoid = avoidFor("C06")
		g.MaxSize = 6000
		n := rapid.IntRange(2, *maxSteps).Draw(t, "nsteps")
		// in a sixth of the cases the history ends with an entry whose (very long) name embeds a
		// well-formed record that deletes or renames an earlier, completely written entry: an
		// indexer that resynchronises into the middle of a torn record must not act on it
		var epilogue []hist.Step
		if rapid.IntRange(0, 5).Draw(t, "injection") == 0 {
			cfg.Compression, cfg.Encryption, cfg.Signature = "", "", ""
			victim := "/victim.txt"
			evil := "/" + hist.InjectionName(victim, rapid.SampledFrom([]string{"DELETE", "MOVE"}).Draw(t, "inject-action"))
			epilogue = []hist.Step{{Op: "create", Path: victim, Slot: 2}, {Op: "write", Slot: 2, Size: 300, Dist: 3, Seed: 77}, {Op: "close", Slot: 2},
				{Op: "create", Path: evil, Slot: 2}, {Op: "close", Slot: 2}}
			n = rapid.IntRange(0, 3).Draw(t, "nsteps-before-injection")
		}
		sharedProbe.Reset()
		epi := 0
		runCase(t, "C06", cfg, nil, &c06{probe: sharedProbe}, world.Opts{Probe: sharedProbe}, func(x *hctx, i int) (hist.Step, bool) {
			if i >= n {
				if len(epilogue) > 0 && x.mr.Slots[2] != nil && epi == 0 {
					return hist.Step{Op: "close", Slot: 2}, true // free the slot the epilogue uses
				}
				if epi < len(epilogue) {
					x.label("has-record-injection-name")
					epi++
					return epilogue[epi-1], true
				}
				return hist.Step{}, false
			}
			return g.Draw(t, x.mr), true
		})
	})
}
