package props

import (
	"bytes"
	"context"
	"fmt"
	"io"
	"io/fs"
	"os"
	"testing"

	"github.com/pojntfx/stfs/pkg/compression"
	"github.com/pojntfx/stfs/pkg/encryption"
	"github.com/pojntfx/stfs/pkg/recovery"
	"github.com/pojntfx/stfs/pkg/signature"
	"pgregory.net/rapid"
	"verif/harness/hist"
	"verif/harness/live"
	"verif/harness/observe"
	"verif/harness/world"
)

// C03 — content round-trips byte-exactly through every pipeline configuration.

type c03Case struct {
	Layer     string `json:"layer"` // codec | ops | fs
	IsRegular bool   `json:"is_regular"`
	CodecRS   int    `json:"codec_record_size"`
	Size      int    `json:"size"`
	Dist      int    `json:"dist"`
	Seed      uint64 `json:"seed"`
	Chunks    int    `json:"chunks"` // fs layer: number of Write calls
	BadLevel  bool   `json:"bad_level"`
	Repeat    int    `json:"repeat,omitempty"`      // codec layer: number of repeated encryptions compared
	FileSrc   bool   `json:"file_source,omitempty"` // ops layer: members come from real *os.File sources, as the CLI passes them
	TapeLike  bool   `json:"tape_like_writer,omitempty"`
	// Name of the entry ("" = /f); suffix-name cases use a name ending in the pipeline's own
	// suffix and keep its stem as the sibling
	Name    string `json:"name,omitempty"`
	Sibling string `json:"sibling,omitempty"`
	// fs layer: how the i-th chunk is written (w = Write, s = WriteString, a = WriteAt at the
	// current end) and whether a Sync follows it
	Via  string `json:"via,omitempty"`
	Sync string `json:"sync,omitempty"`
}

func (c c03Case) names() (string, string) {
	fn, gn := c.Name, c.Sibling
	if fn == "" {
		fn = "/f"
	}
	if gn == "" {
		gn = "/g"
	}
	return fn, gn
}

func drawContentSize(t *rapid.T, rs int) int {
	rec := rs * 512
	cands := []int{0, 1, 511, 512, 513, rec - 1, rec, rec + 1, 3*rec + 17, 65535, 65536, 65537}
	var s int
	if rapid.IntRange(0, 9).Draw(t, "sizeclass") < 6 {
		s = rapid.SampledFrom(cands).Draw(t, "edgesize")
	} else {
		s = rapid.IntRange(0, 5000).Draw(t, "size")
	}
	if s > 300<<10 {
		s = 300 << 10
	}
	if s < 0 {
		s = 0
	}
	return s
}

func c03Codec(f failer, cfg world.Cfg, c c03Case) {
	content := hist.Bytes(c.Size, c.Dist, c.Seed)
	// compression
	var enc bytes.Buffer
	w, err := compression.Compress(&enc, cfg.Compression, cfg.Level, c.IsRegular, c.CodecRS)
	if err != nil {
		live.S.Class("codec:compress-rejected:" + err.Error())
		// a rejection must be clean: nothing written
		if enc.Len() != 0 {
			failf(f, "rejected Compress(%s, regular=%v, rs=%d) wrote %d bytes", cfg.Compression, c.IsRegular, c.CodecRS, enc.Len())
		}
	} else {
		if _, err := io.Copy(w, bytes.NewReader(content)); err != nil {
			failf(f, "compress copy: %v", err)
		}
		if err := w.Flush(); err != nil {
			failf(f, "compress flush: %v", err)
		}
		if err := w.Close(); err != nil {
			failf(f, "compress close: %v", err)
		}
		first := enc.Len()
		// the two-pass size computation relies on the encoded length being reproducible
		var enc2 bytes.Buffer
		w2, _ := compression.Compress(&enc2, cfg.Compression, cfg.Level, c.IsRegular, c.CodecRS)
		io.Copy(w2, bytes.NewReader(content))
		w2.Flush()
		w2.Close()
		if enc2.Len() != first {
			failf(f, "compressing the same content twice gave %d and %d bytes (%s/%s)", first, enc2.Len(), cfg.Compression, cfg.Level)
		}
		r, err := compression.Decompress(bytes.NewReader(enc.Bytes()), cfg.Compression)
		if err != nil {
			failf(f, "decompress open (%s, %d bytes in, %d encoded): %v", cfg.Compression, len(content), first, err)
		}
		back, err := io.ReadAll(r)
		if err != nil {
			failf(f, "decompress read (%s/%s regular=%v rs=%d): %v", cfg.Compression, cfg.Level, c.IsRegular, c.CodecRS, err)
		}
		if !bytes.Equal(back, content) {
			failf(f, "compression round trip (%s/%s regular=%v rs=%d): %d bytes in, %d out", cfg.Compression, cfg.Level, c.IsRegular, c.CodecRS, len(content), len(back))
		}
	}
	// encryption
	ks := world.Owner()
	var ct bytes.Buffer
	ew, err := encryption.Encrypt(&ct, cfg.Encryption, ks.EncRecipient(cfg.Encryption))
	if err != nil {
		failf(f, "encrypt: %v", err)
	}
	ew.Write(content)
	if err := ew.Close(); err != nil {
		failf(f, "encrypt close: %v", err)
	}
	// the write paths encrypt twice (size pass, then tape pass): the lengths must agree
	reps := c.Repeat
	if reps < 1 {
		reps = 1
	}
	for i := 0; i < reps; i++ {
		var ct2 bytes.Buffer
		ew2, _ := encryption.Encrypt(&ct2, cfg.Encryption, ks.EncRecipient(cfg.Encryption))
		ew2.Write(content)
		ew2.Close()
		if ct2.Len() != ct.Len() {
			if cfg.Encryption == "pgp" && guard("F-29") {
				live.S.Exclude("F-29")
				break
			}
			failf(f, "encrypting the same %d bytes twice under %s gave %d and %d bytes: the size written to the tar header (first pass) differs from what the second pass writes", len(content), cfg.Encryption, ct.Len(), ct2.Len())
		}
	}
	dr, err := encryption.Decrypt(bytes.NewReader(ct.Bytes()), cfg.Encryption, ks.EncIdentity(cfg.Encryption))
	if err != nil {
		failf(f, "decrypt: %v", err)
	}
	pt, err := io.ReadAll(dr)
	if err != nil || !bytes.Equal(pt, content) {
		failf(f, "encryption round trip (%s): err=%v, %d in, %d out", cfg.Encryption, err, len(content), len(pt))
	}
	// signature
	sr, sign, err := signature.Sign(bytes.NewReader(content), true, cfg.Signature, ks.SigIdentity(cfg.Signature))
	if err != nil {
		failf(f, "sign: %v", err)
	}
	io.Copy(io.Discard, sr)
	sig, err := sign()
	if err != nil {
		failf(f, "sign(): %v", err)
	}
	vr, verify, err := signature.Verify(bytes.NewReader(content), true, cfg.Signature, ks.SigRecipient(cfg.Signature), sig)
	if err != nil {
		failf(f, "verify open: %v", err)
	}
	got, _ := io.ReadAll(vr)
	if err := verify(); err != nil || !bytes.Equal(got, content) {
		failf(f, "signature round trip (%s): %v", cfg.Signature, err)
	}
}

func c03World(f failer, cfg world.Cfg) *world.World { return c03WorldOpts(f, cfg, false) }

func c03WorldOpts(f failer, cfg world.Cfg, tapeLike bool) *world.World {
	var w *world.World
	var err error
	checkObs(f, hist.Call("New", func() {
		w, err = world.New(cfg, world.Opts{Dir: world.NewDir("c03"), TapeLikeWriter: tapeLike})
	}), "construct")
	if err != nil || w.InitErr != nil {
		failf(f, "cannot build world: %v %v", err, w.InitErr)
	}
	return w
}

type sinkWC struct{ bytes.Buffer }

func (*sinkWC) Close() error { return nil }

func fetchAt(f failer, w *world.World, record, block int64) ([]byte, error) {
	var out sinkWC
	var err error
	checkObs(f, hist.Call("Fetch", func() {
		var rd, e = w.TM.GetReader()
		if e != nil {
			err = e
			return
		}
		defer w.TM.Close()
		err = recovery.Fetch(rd, w.Backend.MagneticTapeIO, w.Cfg.Pipes(), w.ReadCrypto,
			func(string, fs.FileMode) (io.WriteCloser, error) { return &out, nil },
			func(string, fs.FileMode) error { return nil },
			int(record), int(block), "x", false, nil)
	}), "fetch")
	return out.Bytes(), err
}

func c03Check(f failer, w *world.World, p string, content []byte, via string) {
	// route 1: filesystem read through a fresh handle
	data, err := observe.ReadAll(hist.Call, w.FS, p)
	checkObs(f, hangOnly(err), "read")
	if err != nil {
		failf(f, "%s: reading %s back through the filesystem failed: %v", via, p, err)
	}
	if !bytes.Equal(data, content) {
		failf(f, "%s: filesystem read of %s returned %d bytes, %d were written (first difference at %d)", via, p, len(data), len(content), firstDiff(data, content))
	}
	var fi os.FileInfo
	checkObs(f, hist.Call("Stat", func() { fi, err = w.FS.Stat(p) }), "stat")
	if err != nil || fi.Size() != int64(len(content)) {
		failf(f, "%s: Stat(%s) size=%v err=%v, content length %d", via, p, sizeOf(fi), err, len(content))
	}
	// route 2: restore through the archive interface
	var out sinkWC
	checkObs(f, hist.Call("Restore", func() {
		err = w.ReadOps.Restore(func(string, fs.FileMode) (io.WriteCloser, error) { return &out, nil }, func(string, fs.FileMode) error { return nil }, p, "", true)
	}), "restore")
	if err != nil || !bytes.Equal(out.Bytes(), content) {
		failf(f, "%s: Restore(%s) err=%v returned %d bytes, want %d", via, p, err, out.Len(), len(content))
	}
	// route 3: fetch by tape position
	h, err := w.MP.GetHeader(context.Background(), p)
	if err != nil {
		failf(f, "%s: index has no row for %s: %v", via, p, err)
	}
	if h.Size != int64(len(content)) {
		failf(f, "%s: index size of %s is %d, content length %d", via, p, h.Size, len(content))
	}
	got, err := fetchAt(f, w, h.Record, h.Block)
	if err != nil || !bytes.Equal(got, content) {
		failf(f, "%s: Fetch(record %d, block %d) err=%v returned %d bytes, want %d", via, h.Record, h.Block, err, len(got), len(content))
	}
	// the tape: header size = extent (the independent scanner parses to the end)
	sc := observe.TapeScan(w.TapeBytes(), w.Cfg.RecordSize, w.Cfg.Plain())
	if len(sc.Problems) > 0 {
		failf(f, "%s: tape is not a clean tar stream: %v", via, sc.Problems)
	}
	if m, ok := sc.AtRB(h.Record, h.Block, w.Cfg.RecordSize); !ok {
		failf(f, "%s: position (%d,%d) of %s is not a member start", via, h.Record, h.Block, p)
	} else if w.Cfg.Plain() && !bytes.Equal(m.Body, content) {
		failf(f, "%s: plain pipeline: tar member body differs from the content", via)
	}
}

func sizeOf(fi os.FileInfo) interface{} {
	if fi == nil {
		return nil
	}
	return fi.Size()
}

func firstDiff(a, b []byte) int {
	for i := 0; i < len(a) && i < len(b); i++ {
		if a[i] != b[i] {
			return i
		}
	}
	if len(a) < len(b) {
		return len(a)
	}
	return len(b)
}

func c03Ops(f failer, cfg world.Cfg, c c03Case) {
	fn, gn := c.names()
	if c.FileSrc {
		hist.FileBackedSources = world.NewDir("src")
		defer func() { os.RemoveAll(hist.FileBackedSources); hist.FileBackedSources = "" }()
	}
	w := c03WorldOpts(f, cfg, c.TapeLike)
	defer func() { w.Close(); os.RemoveAll(w.Opts.Dir) }()
	content := hist.Bytes(c.Size, c.Dist, c.Seed)
	r := &hist.Runner{Cfg: cfg, Dir: w.Opts.Dir, W: w, Opts: w.Opts}
	if c.BadLevel {
		before := len(w.TapeBytes())
		var err error
		lvl := "ultra"
		checkObs(f, hist.Call("Archive(bad level)", func() {
			_, err = w.WriteOps.Archive(hist.MemberSourceFor([]hist.Member{{Path: "/bad", Kind: "file", Size: c.Size + 1, Dist: c.Dist, Seed: c.Seed, Perm: 0644}}), lvl, false, false)
		}), "archive")
		if cfg.Compression != "" {
			if err == nil {
				failf(f, "Archive with unsupported level %q succeeded under %s", lvl, cfg.Compression)
			}
			if after := len(w.TapeBytes()); after != before {
				failf(f, "rejected Archive (level %q) appended %d bytes", lvl, after-before)
			}
		}
	}
	res := r.Do(hist.Step{Op: "arch_archive", Members: []hist.Member{{Path: fn, Kind: "file", Size: c.Size, Dist: c.Dist, Seed: c.Seed, Perm: 0644, Mtime: 1e18}, {Path: gn, Kind: "file", Size: 3, Dist: 3, Seed: 9, Perm: 0600, Mtime: 1e18}}})
	if res.Hang != nil {
		checkObs(f, res.Hang, "call")
	}
	if res.Err != nil {
		failf(f, "Archive(%s, %d bytes) failed: %v", cfg, c.Size, res.Err)
	}
	c03Check(f, w, fn, content, "after Archive")
	c03Check(f, w, gn, hist.Bytes(3, 3, 9), "after Archive (second member)")
	// replace the content
	content2 := hist.Bytes(c.Size/2+1, (c.Dist+1)%4, c.Seed+1)
	res = r.Do(hist.Step{Op: "arch_update", Replace: true, Members: []hist.Member{{Path: fn, Kind: "file", Size: c.Size/2 + 1, Dist: (c.Dist + 1) % 4, Seed: c.Seed + 1, Perm: 0644, Mtime: 1e18}}})
	if res.Hang != nil {
		checkObs(f, res.Hang, "call")
	}
	if res.Err != nil {
		failf(f, "Update(replace) failed: %v", res.Err)
	}
	c03Check(f, w, fn, content2, "after Update(replace)")
	c03Check(f, w, gn, hist.Bytes(3, 3, 9), "after Update of a sibling")
}

func c03FS(f failer, cfg world.Cfg, c c03Case) {
	fn, gn := c.names()
	w := c03WorldOpts(f, cfg, c.TapeLike)
	defer func() { os.RemoveAll(w.Opts.Dir) }()
	defer func() { w.Close() }()
	content := hist.Bytes(c.Size, c.Dist, c.Seed)
	r := &hist.Runner{Cfg: cfg, Dir: w.Opts.Dir, W: w, Opts: w.Opts}
	must := func(s hist.Step) {
		res := r.Do(s)
		if res.Hang != nil {
			checkObs(f, res.Hang, "call")
		}
		if res.Err != nil {
			failf(f, "%s failed: %v", s, res.Err)
		}
	}
	sib := hist.Bytes(5, 3, 4)
	must(hist.Step{Op: "create", Path: gn, Slot: 1})
	must(hist.Step{Op: "write", Slot: 1, Size: 5, Dist: 3, Seed: 4})
	must(hist.Step{Op: "close", Slot: 1})
	must(hist.Step{Op: "create", Path: fn, Slot: 0})
	// write in c.Chunks pieces via the same deterministic content
	sl := r.Slots[0]
	n := c.Chunks
	if n < 1 {
		n = 1
	}
	for i := 0; i < n; i++ {
		lo, hi := len(content)*i/n, len(content)*(i+1)/n
		var wn int
		var err error
		via := byte('w')
		if i < len(c.Via) {
			via = c.Via[i]
		}
		checkObs(f, hist.Call("Write", func() {
			switch via {
			case 's':
				wn, err = sl.H.WriteString(string(content[lo:hi]))
			case 'a':
				wn, err = sl.H.WriteAt(content[lo:hi], int64(lo))
				if err == nil {
					// where WriteAt leaves the cursor is not specified: place it
					_, err = sl.H.Seek(int64(hi), io.SeekStart)
				}
			default:
				wn, err = sl.H.Write(content[lo:hi])
			}
		}), "write")
		if err != nil || wn != hi-lo {
			failf(f, "Write (%c) of %d bytes returned %d, %v", via, hi-lo, wn, err)
		}
		if i < len(c.Sync) && c.Sync[i] == 'y' {
			checkObs(f, hist.Call("Sync", func() { err = sl.H.Sync() }), "sync")
			if err != nil {
				failf(f, "Sync after chunk %d failed: %v", i, err)
			}
		}
	}
	must(hist.Step{Op: "close", Slot: 0})
	c03Check(f, w, fn, content, "after Create/Write/Close")
	// a fresh instance over the same index and tape
	must(hist.Step{Op: "reopen"})
	w = r.W
	c03Check(f, w, fn, content, "after reopening the instance")
	c03Check(f, w, gn, sib, "sibling after reopening the instance")
}

func c03Run(f failer, cfg world.Cfg, c c03Case) {
	live.J.Begin(hist.Case{Property: "C03", Cfg: cfg, Params: hist.Params{"c03": c}, Steps: []hist.Step{}})
	switch c.Layer {
	case "codec":
		c03Codec(f, cfg, c)
	case "ops":
		c03Ops(f, cfg, c)
	default:
		c03FS(f, cfg, c)
	}
	nt := c.Size > 0 || !(cfg.Compression == "" && cfg.Encryption == "" && cfg.Signature == "")
	sizeClass := "size:0"
	switch {
	case c.Size == 0:
	case c.Size < 512:
		sizeClass = "size:sub-block"
	case c.Size <= cfg.RecordSize*512:
		sizeClass = "size:within-record"
	default:
		sizeClass = "size:multi-record"
	}
	live.S.Class("layer:" + c.Layer)
	if c.FileSrc && c.Layer == "ops" {
		live.S.Class("source:os.File")
	}
	if c.TapeLike {
		live.S.Class("drive:tape-like-writer")
	}
	live.S.Class(sizeClass)
	live.S.Class(fmt.Sprintf("dist:%d", c.Dist))
	live.S.Class(fmt.Sprintf("rs:%d", cfg.RecordSize))
	live.S.Class("cache:" + cfg.WriteCache)
	if c.Layer == "codec" {
		live.S.Class(fmt.Sprintf("codec-regular:%v", c.IsRegular))
	}
	key := fmt.Sprintf("%s/%s/%s/%s|%s|%s|%d", cfg.Compression, cfg.Level, cfg.Encryption, cfg.Signature, c.Layer, sizeClass, c.Dist)
	live.S.Case(fmt.Sprintf("%s/%s/%s/%s", orNone(cfg.Compression), cfg.Level, orNone(cfg.Encryption), orNone(cfg.Signature)), nt, key, func() interface{} {
		return map[string]interface{}{"cfg": cfg.String(), "case": c}
	})
	live.S.Flush()
}

func orNone(s string) string {
	if s == "" {
		return "none"
	}
	return s
}

func TestC03(t *testing.T) {
	rapid.Check(t, func(t *rapid.T) {
		cfg := hist.DrawCfg(t, 0, nil)
		c := c03Case{Layer: rapid.SampledFrom([]string{"codec", "codec", "ops", "fs", "fs"}).Draw(t, "layer")}
		c.IsRegular = rapid.Bool().Draw(t, "is_regular")
		c.CodecRS = rapid.SampledFrom([]int{1, 2, 3, 7, 20, 64, 127, 128, 129, 256, 512, 1024, 2048, 4096}).Draw(t, "codec_rs")
		c.Size = drawContentSize(t, cfg.RecordSize)
		if guard("F-33") && cfg.Compression == "parallelbzip2" && cfg.Encryption == "pgp" && c.Size > 90000 && c.Layer != "codec" {
			c.Size = 90000
			live.S.Exclude("F-33")
		}
		c.Dist = rapid.IntRange(0, 3).Draw(t, "dist")
		c.Seed = rapid.Uint64Range(0, 1<<20).Draw(t, "seed")
		c.Chunks = rapid.IntRange(1, 4).Draw(t, "chunks")
		c.BadLevel = rapid.IntRange(0, 4).Draw(t, "bad_level") == 0
		if rapid.Bool().Draw(t, "mixed_writes") {
			c.Via = rapid.StringOfN(rapid.SampledFrom([]rune("wwsa")), c.Chunks, c.Chunks, -1).Draw(t, "via")
			c.Sync = rapid.StringOfN(rapid.SampledFrom([]rune("nny")), c.Chunks, c.Chunks, -1).Draw(t, "sync")
		}
		c.FileSrc = rapid.Bool().Draw(t, "file_source")
		if c.Layer != "codec" && rapid.IntRange(0, 4).Draw(t, "tape_like") == 0 {
			c.TapeLike = true
			cfg = tapeLikeCfg(cfg)
		}
		if guard("F-29") && cfg.Encryption == "pgp" && cfg.Signature != "" && (c.FileSrc || c.TapeLike) {
			// finding F-29: the two passes chunk an *os.File source differently (32 KiB vs the
			// signer's tee, or vs the record-sized buffer of the tape write path)
			c.FileSrc, c.TapeLike = false, false
			live.S.Exclude("F-29")
		}
		if cs, es := hist.PipelineSuffix(cfg); cs+es != "" && c.Layer != "codec" && rapid.IntRange(0, 3).Draw(t, "suffix_name") == 0 {
			c.Name, c.Sibling = "/f"+cs+es, "/f"
			if cs != "" && es != "" && rapid.Bool().Draw(t, "partial_suffix") {
				c.Name = "/f" + rapid.SampledFrom([]string{cs, es}).Draw(t, "part")
			}
			live.S.Class("name_ends_in_pipeline_suffix")
		}
		c03Run(t, cfg, c)
	})
}

func init() {
	customReplays["C03"] = func(t *testing.T, c *hist.Case, path string) {
		var cc c03Case
		remarshal(c.Params["c03"], &cc)
		c03Run(t, c.Cfg, cc)
	}
}

// sizeOracle: after every call Stat size, index size and readable length of every file
// agree (replay oracle of size findings).
type sizeOracle struct{}

func (sizeOracle) Before(x *hctx, s hist.Step) {}
func (sizeOracle) After(x *hctx, s hist.Step, res hist.Res, mres hist.MRes) string {
	snap, e := observe.Snapshot(hist.Call, x.r.W.FS, true)
	checkObs(x.f, e, "snapshot")
	for _, en := range snap.Entries {
		if en.Kind == "file" && en.ReadErr == "" && en.Size != en.Len {
			return fmt.Sprintf("%s: reported size %d, content length %d", en.Path, en.Size, en.Len)
		}
	}
	return ""
}
func (sizeOracle) End(x *hctx) string      { return "" }
func (sizeOracle) Nontrivial(x *hctx) bool { return true }

func init() { historyOracles["C03X"] = func() oracle { return sizeOracle{} } }
