package props

import "verif/harness/model"

func hist_clean(p string) string { return model.Clean(p) }
