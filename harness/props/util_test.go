package props

import "verif/harness/model"

func hist_clean(p string) string { return model.Clean(p) }

func remarshal(in interface{}, out interface{}) {
	b, _ := jsonMarshal(in)
	_ = jsonUnmarshal(b, out)
}

var worldOptsNone = worldOpts()
