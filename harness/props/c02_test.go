package props

import (
	"bytes"
	"fmt"
	"sort"
	"strings"
	"testing"

	"pgregory.net/rapid"
	"verif/harness/hist"
	"verif/harness/live"
	"verif/harness/observe"
)

// C02 — single-caller behaviour matches a reference hierarchical filesystem.
type c02 struct {
	prev       *observe.Snap
	earlier    bool
	special    bool
	mutations  int
	dirtyPaths map[string]bool
}

// modelDiff compares a snapshot of the implementation with the reference model.
func modelDiff(x *hctx, s *observe.Snap, dirty map[string]bool) string {
	var out []string
	m := x.mr.M
	seen := map[string]bool{}
	for _, e := range s.Entries {
		seen[e.Path] = true
		n := m.Nodes[e.Path]
		if n == nil {
			out = append(out, fmt.Sprintf("implementation has %s (%s) which the reference does not", e.Path, e.Kind))
			continue
		}
		if n.Kind != e.Kind {
			out = append(out, fmt.Sprintf("%s: kind %s, reference %s", e.Path, e.Kind, n.Kind))
			continue
		}
		if e.Path != "/" && uint32(n.Perm) != e.Perm {
			out = append(out, fmt.Sprintf("%s: permission bits %o, reference %o", e.Path, e.Perm, n.Perm))
		}
		if n.Owned && (n.UID != e.UID || n.GID != e.GID) {
			out = append(out, fmt.Sprintf("%s: owner %d:%d, reference %d:%d", e.Path, e.UID, e.GID, n.UID, n.GID))
		}
		if n.Timed && (n.Mtime != e.Mtime || n.Atime != e.Atime) {
			out = append(out, fmt.Sprintf("%s: mtime/atime %d/%d, reference %d/%d", e.Path, e.Mtime, e.Atime, n.Mtime, n.Atime))
		}
		if n.Kind == "file" && !dirty[e.Path] {
			if e.ReadErr != "" {
				out = append(out, fmt.Sprintf("%s: cannot be read (%s)", e.Path, e.Note))
			} else if !bytes.Equal(e.Content, n.Content) {
				out = append(out, fmt.Sprintf("%s: content differs (%d bytes read, reference %d bytes)", e.Path, len(e.Content), len(n.Content)))
			} else if e.Size != int64(len(n.Content)) {
				out = append(out, fmt.Sprintf("%s: Stat size %d, reference %d", e.Path, e.Size, len(n.Content)))
			}
		}
	}
	for _, p := range m.Paths() {
		if !seen[p] {
			out = append(out, fmt.Sprintf("reference has %s (%s) which the implementation does not show", p, m.Nodes[p].Kind))
		}
	}
	for _, e := range s.Errs {
		out = append(out, "walk: "+e)
	}
	sort.Strings(out)
	if len(out) > 10 {
		out = append(out[:10], fmt.Sprintf("... %d more", len(out)-10))
	}
	return strings.Join(out, "\n")
}

func (o *c02) Before(x *hctx, s hist.Step) {
	for _, p := range []string{s.Path, s.Path2} {
		if p == "" {
			continue
		}
		c := hist_clean(p)
		if x.mr.M.Ever[c] && x.mr.M.Nodes[c] == nil {
			o.earlier = true // a name with an earlier life is being addressed
		}
		if strings.ContainsAny(c, "_% .") || len(c) > 100 || !isASCII(c) {
			o.special = true
		}
	}
}

func isASCII(s string) bool {
	for _, c := range s {
		if c > 127 {
			return false
		}
	}
	return true
}

func (o *c02) After(x *hctx, s hist.Step, res hist.Res, mres hist.MRes) string {
	if res.Skipped {
		return ""
	}
	if cs, es := hist.PipelineSuffix(x.cfg); s.Op == "rename" && res.Err == nil && cs+es != "" && strings.HasSuffix(hist_clean(s.Path2), cs+es) {
		if n := x.mr.M.Get(s.Path2); n != nil && n.Kind == "file" {
			live.S.Class("file_renamed_to_suffix_name")
		}
	}
	if o.dirtyPaths == nil {
		o.dirtyPaths = map[string]bool{}
	}
	if !mres.DontCare {
		if (res.Err != nil) != (mres.Err != "") {
			return fmt.Sprintf("outcome differs: implementation returned err=%v, the reference filesystem %s", res.Err, orOK(mres.Err))
		}
		switch s.Op {
		case "write", "writestring":
			if res.Err == nil && res.N != mres.N {
				return fmt.Sprintf("write count %d, reference %d", res.N, mres.N)
			}
		case "list":
			if res.Err == nil {
				got := append([]string(nil), res.Names...)
				sort.Strings(got)
				want := mres.Names
				if s.N > 0 && len(want) > s.N {
					if len(got) > s.N {
						return fmt.Sprintf("Readdir(%d) returned %d entries", s.N, len(got))
					}
				} else if strings.Join(got, "\x00") != strings.Join(want, "\x00") {
					return fmt.Sprintf("listing %q, reference %q", got, want)
				}
			}
		}
	}
	// which files have uncommitted handle writes (content visible at close/sync only)
	dirty := map[string]bool{}
	for _, sl := range x.r.Slots {
		if sl != nil && sl.Dirty {
			dirty[hist_clean(sl.Path)] = true
		}
	}
	if s.Op == "sync" && res.Err == nil {
		if sl := x.r.Slots[s.Slot]; sl != nil {
			sl.Dirty = false
			delete(dirty, hist_clean(sl.Path))
		}
	}
	if !hist.Mutating(s.Op) {
		return ""
	}
	snap, e := observe.Snapshot(hist.Call, x.r.W.FS, true)
	checkObs(x.f, e, "snapshot")
	if res.Err != nil && o.prev != nil && !mres.DontCare {
		if d := observe.Diff("before", o.prev, "after", snap, true); d != "" {
			return "a failed call changed the filesystem:\n" + d
		}
	}
	o.prev = snap
	if res.Err == nil {
		o.mutations++
	}
	if d := modelDiff(x, snap, dirty); d != "" {
		return "filesystem state differs from the reference:\n" + d
	}
	return ""
}

func orOK(s string) string {
	if s == "" {
		return "succeeds"
	}
	return "fails (" + s + ")"
}

func (o *c02) End(x *hctx) string { return "" }
func (o *c02) Nontrivial(x *hctx) bool {
	return o.mutations >= 1 && (o.earlier || o.special)
}

func init() {
	historyOracles["C02"] = func() oracle { return &c02{} }
}

func TestC02(t *testing.T) {
	rapid.Check(t, func(t *rapid.T) {
		cfg := hist.DrawCfg(t, 50, nil)
		rapidHistory(t, "C02", cfg, fsWeights, hist.Universe, &c02{}, avoidFor("C02"))
	})
}
