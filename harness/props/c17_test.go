package props

import (
	"archive/tar"
	"bytes"
	"fmt"
	"os"
	"os/exec"
	"path"
	"path/filepath"
	"sort"
	"strings"
	"testing"
	"time"

	"github.com/pojntfx/stfs/pkg/cache"
	"github.com/spf13/afero"
	"pgregory.net/rapid"
	"verif/harness/hist"
	"verif/harness/live"
	"verif/harness/observe"
	"verif/harness/world"
)

// C17 — foreign tar archives open as filesystems; path spellings are interchangeable.

type c17Entry struct {
	Path  string `json:"path"` // clean absolute path inside the tree
	Dir   bool   `json:"dir"`
	Size  int    `json:"size,omitempty"`
	Seed  uint64 `json:"seed,omitempty"`
	Perm  uint32 `json:"perm"`
	Mtime int64  `json:"mtime"` // seconds
}

type c17Case struct {
	Format   string     `json:"format"` // ustar | pax | gnu
	Root     string     `json:"root"`   // "./" | "/" | "top/"
	RootPerm uint32     `json:"root_perm"`
	Tree     []c17Entry `json:"tree"`
	New      []string   `json:"new"`                // files added through the filesystem afterwards
	Writer   string     `json:"writer,omitempty"`   // "" = archive/tar, "gnutar" = /usr/bin/tar over a materialised tree
	Blocking int        `json:"blocking,omitempty"` // gnutar: blocking factor (-b); archive/tar: zero blocks appended behind the trailer
	Modify   []c17Mod   `json:"modify,omitempty"`   // calls on members after opening
}

type c17Mod struct {
	Kind string `json:"kind"` // chmod | chtimes | rename | remove
	Idx  int    `json:"idx"`
	Perm uint32 `json:"perm,omitempty"`
}

// c17GnuTar materialises the tree and lets /usr/bin/tar write the archive.
func c17GnuTar(c c17Case) ([]byte, error) {
	base := world.NewDir("c17tree")
	defer os.RemoveAll(base)
	topName := "top"
	if c.Root != "./" && c.Root != "/" {
		topName = strings.TrimSuffix(c.Root, "/")
	}
	top := filepath.Join(base, topName)
	if err := os.MkdirAll(top, 0755); err != nil {
		return nil, err
	}
	for _, e := range c.Tree {
		p := filepath.Join(top, filepath.FromSlash(e.Path))
		if e.Dir {
			if err := os.Mkdir(p, 0755); err != nil {
				return nil, err
			}
		} else if err := os.WriteFile(p, hist.Bytes(e.Size, 2, e.Seed), 0644); err != nil {
			return nil, err
		}
	}
	// attributes bottom-up so that directory mtimes stick
	for i := len(c.Tree) - 1; i >= 0; i-- {
		e := c.Tree[i]
		p := filepath.Join(top, filepath.FromSlash(e.Path))
		_ = os.Chmod(p, os.FileMode(e.Perm|0400)|dirX(e))
		_ = os.Chtimes(p, time.Unix(e.Mtime, 0), time.Unix(e.Mtime, 0))
	}
	_ = os.Chmod(top, os.FileMode(c.RootPerm))
	_ = os.Chtimes(top, time.Unix(1600000000, 0), time.Unix(1600000000, 0))
	out := filepath.Join(base, "out.tar")
	args := []string{"--format=" + map[string]string{"ustar": "ustar", "pax": "posix", "gnu": "gnu"}[c.Format], "--no-recursion", "-cf", out}
	if c.Blocking > 0 {
		args = append([]string{"-b", fmt.Sprint(c.Blocking)}, args...)
	}
	names := []string{}
	if c.Root == "./" {
		args = append(args, "-C", top)
		names = append(names, ".")
		for _, e := range c.Tree {
			names = append(names, "./"+strings.TrimPrefix(e.Path, "/"))
		}
	} else {
		args = append(args, "-C", base)
		names = append(names, topName)
		for _, e := range c.Tree {
			names = append(names, topName+"/"+strings.TrimPrefix(e.Path, "/"))
		}
	}
	cmd := exec.Command("/usr/bin/tar", append(args, names...)...)
	if b, err := cmd.CombinedOutput(); err != nil {
		return nil, fmt.Errorf("tar: %v: %s", err, b)
	}
	return os.ReadFile(out)
}

func dirX(e c17Entry) os.FileMode {
	if e.Dir {
		return 0300 // keep the tree traversable and writable while it is being built
	}
	return 0
}

func (c c17Case) tarName(p string, dir bool) string {
	rel := strings.TrimPrefix(p, "/")
	var n string
	switch c.Root {
	case "./":
		n = "./" + rel
	case "/":
		n = "/" + rel
	default:
		n = c.Root + rel
	}
	if p == "/" {
		n = c.Root
	} else if dir {
		n += "/"
	}
	return n
}

func c17Write(c c17Case) ([]byte, error) {
	var buf bytes.Buffer
	tw := tar.NewWriter(&buf)
	format := map[string]tar.Format{"ustar": tar.FormatUSTAR, "pax": tar.FormatPAX, "gnu": tar.FormatGNU}[c.Format]
	entries := append([]c17Entry{{Path: "/", Dir: true, Perm: c.RootPerm, Mtime: 1600000000}}, c.Tree...)
	for _, e := range entries {
		h := &tar.Header{Name: c.tarName(e.Path, e.Dir), Mode: int64(e.Perm), ModTime: time.Unix(e.Mtime, 0), Uid: 1000, Gid: 1000, Uname: "user", Gname: "group", Format: format}
		var data []byte
		if e.Dir {
			h.Typeflag = tar.TypeDir
		} else {
			h.Typeflag = tar.TypeReg
			data = hist.Bytes(e.Size, 2, e.Seed)
			h.Size = int64(len(data))
		}
		if err := tw.WriteHeader(h); err != nil {
			// the chosen format cannot encode this entry: a standard writer would pick PAX
			h.Format = tar.FormatPAX
			if err := tw.WriteHeader(h); err != nil {
				return nil, err
			}
		}
		if _, err := tw.Write(data); err != nil {
			return nil, err
		}
	}
	if err := tw.Close(); err != nil {
		return nil, err
	}
	return buf.Bytes(), nil
}

// linkFs adapts an afero.Fs to the observer's interface.
type linkFs struct{ afero.Fs }

func (l linkFs) LstatIfPossible(n string) (os.FileInfo, bool, error) {
	if ls, ok := l.Fs.(afero.Lstater); ok {
		return ls.LstatIfPossible(n)
	}
	fi, err := l.Fs.Stat(n)
	return fi, false, err
}
func (l linkFs) ReadlinkIfPossible(n string) (string, error) {
	if lr, ok := l.Fs.(afero.LinkReader); ok {
		return lr.ReadlinkIfPossible(n)
	}
	return "", os.ErrInvalid
}

func c17Open(f failer, cfg world.Cfg, dir, drv, db string) (*world.World, observe.Fs) {
	var w *world.World
	var err error
	checkObs(f, hist.Call("open foreign archive", func() { w, err = world.New(cfg, world.Opts{Dir: dir, Drive: drv, DB: db}) }), "Initialize over the archive")
	if err != nil {
		failf(f, "cannot construct: %v", err)
	}
	if w.InitErr != nil {
		failf(f, "Initialize over the archive failed: %v", w.InitErr)
	}
	// the documented composition (examples/, cmd/stfs/cmd/serve_*.go)
	fsys, err := cache.NewCacheFilesystem(w.FS, w.Root, "", 0, "")
	if err != nil {
		failf(f, "NewCacheFilesystem: %v", err)
	}
	return w, linkFs{fsys}
}

// extraDirs: directories added through the filesystem (set by c17Run).
var c17ExtraDirs = map[string]bool{}

func c17Compare(c c17Case, snap *observe.Snap, extra map[string][]byte) string {
	want := map[string]c17Entry{}
	for _, e := range c.Tree {
		want[e.Path] = e
	}
	var out []string
	seen := map[string]bool{}
	for _, en := range snap.Entries {
		if en.Path == "/" {
			continue
		}
		seen[en.Path] = true
		if c17ExtraDirs[en.Path] {
			if en.Kind != "dir" {
				out = append(out, fmt.Sprintf("added directory %s shows as %s", en.Path, en.Kind))
			}
			continue
		}
		if data, ok := extra[en.Path]; ok {
			if !bytes.Equal(en.Content, data) {
				out = append(out, fmt.Sprintf("added file %s reads %d bytes, %d were written", en.Path, len(en.Content), len(data)))
			}
			continue
		}
		e, ok := want[en.Path]
		if !ok {
			out = append(out, fmt.Sprintf("filesystem shows %s (%s) which is not a member of the archive", en.Path, en.Kind))
			continue
		}
		kind := "file"
		if e.Dir {
			kind = "dir"
		}
		if en.Kind != kind {
			out = append(out, fmt.Sprintf("%s: kind %s, archive member is a %s", en.Path, en.Kind, kind))
			continue
		}
		if en.Perm != e.Perm&0777 {
			out = append(out, fmt.Sprintf("%s: permission bits %o, archive %o", en.Path, en.Perm, e.Perm))
		}
		if en.Mtime/1e9 != e.Mtime {
			out = append(out, fmt.Sprintf("%s: mtime %d s, archive %d s", en.Path, en.Mtime/1e9, e.Mtime))
		}
		if !e.Dir {
			data := hist.Bytes(e.Size, 2, e.Seed)
			if en.ReadErr != "" {
				out = append(out, fmt.Sprintf("%s: cannot be read:%s", en.Path, en.Note))
			} else if !bytes.Equal(en.Content, data) {
				out = append(out, fmt.Sprintf("%s: reads %d bytes, the member has %d bytes (first difference at %d)", en.Path, len(en.Content), len(data), firstDiff(en.Content, data)))
			}
			if en.Size != int64(e.Size) {
				out = append(out, fmt.Sprintf("%s: Stat size %d, member size %d", en.Path, en.Size, e.Size))
			}
		}
	}
	for p := range want {
		if !seen[p] {
			out = append(out, fmt.Sprintf("member %s is not listed under its directory", p))
		}
	}
	for p := range extra {
		if !seen[p] {
			out = append(out, fmt.Sprintf("added file %s is not listed", p))
		}
	}
	for p := range c17ExtraDirs {
		if !seen[p] {
			out = append(out, fmt.Sprintf("added directory %s is not listed", p))
		}
	}
	for _, e := range snap.Errs {
		out = append(out, "walk: "+e)
	}
	sort.Strings(out)
	if len(out) > 10 {
		out = out[:10]
	}
	return strings.Join(out, "\n")
}

func c17Run(f failer, cfg world.Cfg, c c17Case) {
	live.J.Begin(hist.Case{Property: "C17", Cfg: cfg, Params: hist.Params{"c17": c}, Steps: []hist.Step{}})
	c17ExtraDirs = map[string]bool{}
	var raw []byte
	var err error
	if c.Writer == "gnutar" {
		raw, err = c17GnuTar(c)
		// the materialised attributes are what the archive holds
		for i := range c.Tree {
			c.Tree[i].Perm = (c.Tree[i].Perm | 0400 | uint32(dirX(c.Tree[i]))) & 0777
		}
	} else {
		raw, err = c17Write(c)
		if err == nil && c.Blocking > 0 {
			raw = append(raw, make([]byte, 512*c.Blocking)...) // zero blocks as a blocking writer leaves them
		}
	}
	if err != nil {
		// not encodable by a standard writer at all: not in the domain
		live.S.Exclude("interp:not-encodable")
		live.S.Case(c.Format+"|"+c.Root, false, "", nil)
		live.S.Flush()
		return
	}
	dir := world.NewDir("c17")
	defer os.RemoveAll(dir)
	drv := filepath.Join(dir, "drv", "archive.tar")
	_ = os.MkdirAll(filepath.Dir(drv), 0700)
	_ = os.WriteFile(drv, raw, 0600)
	w, fsys := c17Open(f, cfg, dir, drv, filepath.Join(dir, "index.sqlite"))
	defer func() { w.Close() }()
	after, _ := os.ReadFile(drv)
	if !bytes.Equal(after, raw) {
		failf(f, "opening the archive changed it (%d -> %d bytes)", len(raw), len(after))
	}
	snap, e := observe.Snapshot(hist.Call, fsys, true)
	checkObs(f, e, "snapshot")
	if d := c17Compare(c, snap, nil); d != "" {
		failf(f, "the filesystem over the %s archive (root %q, Initialize returned root %q) does not show the archive's tree:\n%s", c.Format, c.Root, w.Root, d)
	}
	// equivalent spellings resolve to the same entry
	for _, e := range c.Tree {
		rel := strings.TrimPrefix(e.Path, "/")
		var ref os.FileInfo
		for i, sp := range []string{"/" + rel, rel, "./" + rel} {
			var fi os.FileInfo
			var err error
			checkObs(f, hist.Call("Stat "+sp, func() { fi, err = fsys.Stat(sp) }), "stat")
			live.S.AddInner(1)
			if err != nil {
				failf(f, "spelling %q of member %s does not resolve: %v", sp, e.Path, err)
			}
			if i == 0 {
				ref = fi
			} else if fi.IsDir() != ref.IsDir() || fi.Size() != ref.Size() || fi.Mode().Perm() != ref.Mode().Perm() || !fi.ModTime().Equal(ref.ModTime()) {
				failf(f, "spelling %q of member %s resolves to a different entry than %q", sp, e.Path, "/"+rel)
			}
			if !e.Dir && i > 0 {
				data, err := observe.ReadAll(hist.Call, fsys, sp)
				checkObs(f, hangOnly(err), "read")
				if err != nil || !bytes.Equal(data, hist.Bytes(e.Size, 2, e.Seed)) {
					failf(f, "reading member %s through the spelling %q: err=%v, %d bytes", e.Path, sp, err, len(data))
				}
			}
		}
	}
	// files added through the filesystem coexist with the members and survive a rebuild
	extra := map[string][]byte{}
	for i, p := range c.New {
		var h afero.File
		var err error
		if i == 0 && len(c.New) > 1 {
			// the first addition is a directory: a single record that is never updated afterwards
			checkObs(f, hist.Call("Mkdir "+p, func() { err = fsys.Mkdir(p+"-dir", 0755) }), "mkdir")
			if err != nil {
				failf(f, "creating the directory %s-dir in the opened archive failed: %v", p, err)
			}
			c17ExtraDirs[observe.Clean(p+"-dir")] = true
			if msg := positionsAreMemberStarts(w, cfg); msg != "" {
				failf(f, "after Mkdir(%q) in the opened archive: %s", p+"-dir", msg)
			}
		}
		checkObs(f, hist.Call("Create "+p, func() { h, err = fsys.Create(p) }), "create")
		if err != nil {
			failf(f, "creating %s in the opened archive failed: %v", p, err)
		}
		data := hist.Bytes(100+i*700, 3, uint64(i+1))
		checkObs(f, hist.Call("Write", func() { _, err = h.Write(data) }), "write")
		if err != nil {
			failf(f, "writing %s failed: %v", p, err)
		}
		checkObs(f, hist.Call("Close", func() { err = h.Close() }), "close")
		if err != nil {
			failf(f, "closing %s failed: %v", p, err)
		}
		extra[observe.Clean(p)] = data
		if msg := positionsAreMemberStarts(w, cfg); msg != "" {
			failf(f, "after adding %s: %s", p, msg)
		}
		snap, e := observe.Snapshot(hist.Call, fsys, true)
		checkObs(f, e, "snapshot")
		if d := c17Compare(c, snap, extra); d != "" {
			failf(f, "after adding %s the filesystem no longer shows members and additions side by side:\n%s", p, d)
		}
	}
	// calls on members of the foreign archive; afterwards the live view and a rebuild must agree
	if len(c.Modify) > 0 && len(c.Tree) > 0 {
		var callErrs []string
		alive := map[string]bool{}
		for _, e := range c.Tree {
			alive[e.Path] = true
		}
		for _, m := range c.Modify {
			e := c.Tree[m.Idx%len(c.Tree)]
			wasAlive := alive[e.Path]
			if m.Kind == "selfmove" {
				// a directory cannot be moved beneath itself: the call is refused and leaves everything,
				// also an existing empty directory at the destination, where it was
				if !e.Dir || !wasAlive {
					continue
				}
				dst := e.Path + "/zz-fresh"
				for _, sub := range c.Tree {
					if sub.Dir && alive[sub.Path] && path.Dir(sub.Path) == e.Path {
						empty := true
						for _, g := range c.Tree {
							if alive[g.Path] && strings.HasPrefix(g.Path, sub.Path+"/") {
								empty = false
							}
						}
						if empty {
							dst = sub.Path
							break
						}
					}
				}
				var merr error
				checkObs(f, hist.Call("selfmove "+e.Path, func() { merr = fsys.Rename(e.Path, dst) }), "selfmove")
				if merr == nil {
					failf(f, "Rename(%q, %q) moved a directory of the archive beneath itself", e.Path, dst)
				}
				for _, g := range c.Tree {
					if !alive[g.Path] {
						continue
					}
					var serr error
					checkObs(f, hist.Call("stat "+g.Path, func() { _, serr = fsys.Stat(g.Path) }), "stat")
					if serr != nil {
						failf(f, "after the refused Rename(%q, %q) the member %s is gone: %v", e.Path, dst, g.Path, serr)
					}
				}
				callErrs = append(callErrs, fmt.Sprintf("selfmove %s -> %s: refused", e.Path, dst))
				live.S.Class("member-call:selfmove-refused")
				continue
			}
			var err error
			checkObs(f, hist.Call(m.Kind+" "+e.Path, func() {
				switch m.Kind {
				case "chmod":
					err = fsys.Chmod(e.Path, os.FileMode(m.Perm))
				case "chtimes":
					err = fsys.Chtimes(e.Path, time.Unix(1234567, 0), time.Unix(7654321, 0))
				case "rename":
					err = fsys.Rename(e.Path, e.Path+"-renamed")
				case "remove", "recreate":
					err = fsys.RemoveAll(e.Path)
				}
			}), m.Kind)
			if m.Kind == "recreate" && wasAlive && err == nil && (path.Dir(e.Path) == "/" || alive[path.Dir(e.Path)]) {
				// the name of a removed member is taken again (absolute spelling, as callers use it)
				var cerr error
				fresh := hist.Bytes(33, 3, uint64(m.Idx))
				checkObs(f, hist.Call("recreate "+e.Path, func() {
					if e.Dir {
						cerr = fsys.Mkdir(e.Path, 0755)
						return
					}
					var h afero.File
					if h, cerr = fsys.Create(e.Path); cerr == nil {
						if _, cerr = h.Write(fresh); cerr == nil {
							cerr = h.Close()
						} else {
							h.Close()
						}
					}
				}), "recreate")
				if cerr != nil {
					failf(f, "the name of the removed archive member %s cannot be used again: %v (calls so far: %v)", e.Path, cerr, callErrs)
				}
				if !e.Dir {
					data, rerr := observe.ReadAll(hist.Call, fsys, e.Path)
					checkObs(f, hangOnly(rerr), "read back")
					if rerr != nil || !bytes.Equal(data, fresh) {
						failf(f, "%s was removed and written again, but reads %d bytes (err %v) instead of the %d new ones", e.Path, len(data), rerr, len(fresh))
					}
				}
				callErrs = append(callErrs, "recreate "+e.Path+": ok")
				live.S.Class("member-call:recreated")
			}
			callErrs = append(callErrs, fmt.Sprintf("%s %s: %v", m.Kind, e.Path, err))
			// a member that is still there accepts the call (it may be gone: renamed/removed earlier)
			if wasAlive && err != nil {
				failf(f, "%s of the archive member %s failed: %v (calls so far: %v)", m.Kind, e.Path, err, callErrs)
			}
			if wasAlive && (m.Kind == "remove" || m.Kind == "rename" || m.Kind == "recreate") {
				for p := range alive {
					if p == e.Path || strings.HasPrefix(p, e.Path+"/") {
						delete(alive, p)
					}
				}
			}
			live.S.Class("member-call:" + m.Kind)
		}
		liveSnap, e := observe.Snapshot(hist.Call, fsys, true)
		checkObs(f, e, "snapshot")
		for _, en := range liveSnap.Entries {
			if en.Kind == "file" && en.ReadErr == "" && en.Size != en.Len {
				failf(f, "after %v on members of the archive, %s reports size %d but reads %d bytes", c.Modify, en.Path, en.Size, en.Len)
			}
		}
		now, _ := os.ReadFile(drv)
		d3 := filepath.Join(dir, "rebuilt-after-calls")
		drv3 := filepath.Join(d3, "drv", "archive.tar")
		_ = os.MkdirAll(filepath.Dir(drv3), 0700)
		_ = os.WriteFile(drv3, now, 0600)
		w3, fs3 := c17Open(f, cfg, d3, drv3, filepath.Join(d3, "index.sqlite"))
		rebuilt, e := observe.Snapshot(hist.Call, fs3, true)
		checkObs(f, e, "snapshot of the rebuild")
		w3.Close()
		if d := observe.Diff("live", liveSnap, "rebuilt", rebuilt, true); d != "" {
			failf(f, "after %v on members of the archive an index rebuild shows a different filesystem:\n%s", callErrs, d)
		}
		live.S.Case(c.Format+"|"+c.Root, true, live.J.Digest(), func() interface{} { return c })
		live.S.Flush()
		return
	}
	if len(extra) > 0 {
		w.Close()
		now, _ := os.ReadFile(drv)
		if !bytes.Equal(now[:len(raw)], raw) {
			failf(f, "adding files rewrote the original archive bytes")
		}
		d2 := filepath.Join(dir, "rebuilt")
		drv2 := filepath.Join(d2, "drv", "archive.tar")
		_ = os.MkdirAll(filepath.Dir(drv2), 0700)
		_ = os.WriteFile(drv2, now, 0600)
		w2, fs2 := c17Open(f, cfg, d2, drv2, filepath.Join(d2, "index.sqlite"))
		if os.Getenv("VERIF_DUMP") != "" {
			r1, _ := observe.IndexDump(filepath.Join(dir, "index.sqlite"))
			r2, _ := observe.IndexDump(filepath.Join(d2, "index.sqlite"))
			fmt.Fprintf(os.Stderr, "--- live index\n%s--- rebuilt index\n%s", observe.DumpString(r1), observe.DumpString(r2))
		}
		snap, e := observe.Snapshot(hist.Call, fs2, true)
		checkObs(f, e, "snapshot of the rebuild")
		w2.Close()
		if d := c17Compare(c, snap, extra); d != "" {
			failf(f, "after an index rebuild members and added files are not all there:\n%s", d)
		}
	}
	depth, long := 0, false
	for _, e := range c.Tree {
		if d := strings.Count(e.Path, "/"); d > depth {
			depth = d
		}
		if len(path.Base(e.Path)) > 100 || len(e.Path) > 100 {
			long = true
		}
	}
	live.S.Class("format:" + c.Format)
	live.S.Class("root:" + c.Root)
	live.S.Class(fmt.Sprintf("rs:%d", cfg.RecordSize))
	if long {
		live.S.Class("has-long-name")
	}
	live.S.Case(c.Format+"|"+c.Root, depth >= 2 && (long || c.Root != "/"), live.J.Digest(), func() interface{} { return c })
	live.S.Flush()
}

var c17Names = []string{"a", "b", "dir", "file.txt", "a b", "ü", "x_y", "A", ".hidden", "data.tar.gz", strings.Repeat("n", 99), strings.Repeat("m", 101), strings.Repeat("k", 150), strings.Repeat("é", 60)}

func TestC17(t *testing.T) {
	rapid.Check(t, func(t *rapid.T) {
		cfg := world.Cfg{Level: "fastest", WriteCache: rapid.SampledFrom([]string{"memory", "file"}).Draw(t, "cache"), RecordSize: rapid.SampledFrom(hist.RecordSizes).Draw(t, "record_size")}
		c := c17Case{
			Format:   rapid.SampledFrom([]string{"ustar", "pax", "gnu"}).Draw(t, "format"),
			Root:     rapid.SampledFrom([]string{"./", "/", "top/", "./", "top/", ".config/", "a b/", "é/", "top.d/", "x-y/"}).Draw(t, "root"),
			RootPerm: uint32(rapid.SampledFrom([]int{0755, 0777, 0700}).Draw(t, "rootperm")),
		}
		dirs := []string{"/"}
		seen := map[string]bool{"/": true}
		n := rapid.IntRange(1, 14).Draw(t, "entries")
		for i := 0; i < n; i++ {
			par := rapid.SampledFrom(dirs).Draw(t, "parent")
			if strings.Count(par, "/") >= 4 {
				par = "/"
			}
			p := path.Join(par, rapid.SampledFrom(c17Names).Draw(t, "name"))
			if seen[p] || len(p) > 240 {
				continue
			}
			seen[p] = true
			e := c17Entry{Path: p, Dir: rapid.IntRange(0, 9).Draw(t, "isdir") < 4, Perm: uint32(rapid.SampledFrom([]int{0644, 0755, 0600, 0777, 0400}).Draw(t, "perm")), Mtime: rapid.Int64Range(1, 4102444800).Draw(t, "mtime")}
			if e.Dir {
				dirs = append(dirs, p)
			} else {
				e.Size = rapid.SampledFrom([]int{0, 1, 511, 512, 513, 700, cfg.RecordSize * 512, cfg.RecordSize*512 + 1, 2*cfg.RecordSize*512 + 3}).Draw(t, "size")
				if e.Size > 200<<10 {
					e.Size = 200 << 10
				}
				e.Seed = uint64(i + 1)
			}
			c.Tree = append(c.Tree, e)
		}
		if *gnuTar && rapid.IntRange(0, 2).Draw(t, "gnutar") == 0 {
			c.Writer = "gnutar"
			if c.Root == "/" {
				c.Root = "./"
			}
		}
		if rapid.IntRange(0, 2).Draw(t, "blocked") > 0 {
			c.Blocking = rapid.SampledFrom([]int{1, 2, 3, 5, 20, 21, 22, 23, 24, 45, 46, 47, 64, 70, 127, 128, 129, 256, 300}).Draw(t, "blocking")
		}
		for i := 0; i < rapid.IntRange(0, 2).Draw(t, "nnew"); i++ {
			name := fmt.Sprintf("added-%d", i)
			if rapid.Bool().Draw(t, "oddname") {
				name = rapid.SampledFrom(c17Names).Draw(t, "newname") + name
			}
			c.New = append(c.New, path.Join(rapid.SampledFrom(dirs).Draw(t, "newdir"), name))
		}
		if rapid.IntRange(0, 2).Draw(t, "modify") == 0 {
			for i := 0; i < rapid.IntRange(1, 3).Draw(t, "nmod"); i++ {
				c.Modify = append(c.Modify, c17Mod{Kind: rapid.SampledFrom([]string{"chmod", "chtimes", "rename", "remove", "chmod", "recreate", "selfmove"}).Draw(t, "modkind"), Idx: rapid.IntRange(0, 20).Draw(t, "modidx"), Perm: uint32(rapid.SampledFrom([]int{0600, 0755, 0444}).Draw(t, "modperm"))})
			}
		}
		c17Run(t, cfg, c)
	})
}

func init() {
	customReplays["C17"] = func(t *testing.T, c *hist.Case, path string) {
		var cc c17Case
		remarshal(c.Params["c17"], &cc)
		c17Run(t, c.Cfg, cc)
	}
}

// positionsAreMemberStarts: C04's basic invariant on whatever tape the instance is over:
// every row's position and last-known position is the start of a tar member, and the
// last-indexed position is the final member.
func positionsAreMemberStarts(w *world.World, cfg world.Cfg) string {
	raw := w.TapeBytes()
	sc := observe.TapeScan(raw, cfg.RecordSize, false)
	if len(sc.Problems) > 0 {
		return fmt.Sprintf("the tape no longer scans: %v", sc.Problems)
	}
	starts := sc.Starts()
	rows, err := observe.IndexDump(w.DB)
	if err != nil {
		return "cannot read the index: " + err.Error()
	}
	rs := int64(cfg.RecordSize)
	for _, r := range rows {
		pos, lpos := (r.Record*rs+r.Block)*512, (r.LastRecord*rs+r.LastBlock)*512
		if _, ok := starts[pos]; !ok && r.Deleted == 0 {
			return fmt.Sprintf("index row %q has position (%d,%d) = byte %d, which is not the start of a record on the tape", r.Name, r.Record, r.Block, pos)
		}
		if _, ok := starts[lpos]; !ok {
			return fmt.Sprintf("index row %q has last-known position (%d,%d) = byte %d, which is not the start of a record on the tape", r.Name, r.LastRecord, r.LastBlock, lpos)
		}
	}
	return ""
}
