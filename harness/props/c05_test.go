package props

import (
	"bytes"
	"crypto/sha256"
	"fmt"
	"testing"

	"archive/tar"

	"pgregory.net/rapid"
	"verif/harness/hist"
	"verif/harness/live"
	"verif/harness/observe"
	"verif/harness/world"
)

// C05 — the tape is append-only and stays a standard tar stream.
type c05 struct {
	prevLen  int
	prevSum  [32]byte
	archives int
	rejected int
}

func (o *c05) Before(x *hctx, s hist.Step) {
	raw := x.r.W.TapeBytes()
	o.prevLen = len(raw)
	o.prevSum = sha256.Sum256(raw)
}

func (o *c05) After(x *hctx, s hist.Step, res hist.Res, mres hist.MRes) string {
	if res.Skipped {
		return ""
	}
	raw := x.r.W.TapeBytes()
	if len(raw) < o.prevLen {
		return fmt.Sprintf("tape shrank from %d to %d bytes", o.prevLen, len(raw))
	}
	if sha256.Sum256(raw[:o.prevLen]) != o.prevSum {
		return fmt.Sprintf("bytes already on the tape changed (first %d bytes differ)", o.prevLen)
	}
	appended := len(raw) - o.prevLen
	if res.Err != nil && mres.Err != "" && !mres.DontCare {
		o.rejected++
		if appended != 0 {
			return fmt.Sprintf("call was rejected (%v; reference: %s) but appended %d bytes", res.Err, mres.Err, appended)
		}
	}
	if !hist.Mutating(s.Op) && appended != 0 {
		return fmt.Sprintf("non-mutating call appended %d bytes", appended)
	}
	if len(raw)%512 != 0 {
		return fmt.Sprintf("tape length %d is not a whole number of 512-byte blocks", len(raw))
	}
	if appended > 0 {
		if appended < 1024 || !bytes.Equal(raw[len(raw)-1024:], make([]byte, 1024)) {
			return "tape does not end with a two-block trailer after an appending call"
		}
	}
	sc := observe.TapeScan(raw, x.cfg.RecordSize, x.cfg.Plain())
	if len(sc.Problems) > 0 {
		return fmt.Sprintf("independent tar reader cannot iterate the tape: %v", sc.Problems)
	}
	o.archives = len(sc.Archives)
	covered := int64(0)
	for _, a := range sc.Archives {
		if a.Start != covered {
			// only zero blocks may lie between archives
			if !bytes.Equal(raw[covered:a.Start], make([]byte, a.Start-covered)) {
				return fmt.Sprintf("non-tar bytes between offsets %d and %d", covered, a.Start)
			}
		}
		covered = a.End
		if len(a.Members) == 0 {
			return fmt.Sprintf("empty archive at offset %d", a.Start)
		}
	}
	for _, m := range sc.Members {
		if m.Format != tar.FormatPAX {
			return fmt.Sprintf("member at offset %d is not in PAX format (%v)", m.Off, m.Format)
		}
	}
	if x.cfg.Plain() && appended > 0 {
		// the member data of each live file's content record equals the file's content
		hdrs, err := x.r.W.Headers()
		if err != nil {
			return "cannot list index: " + err.Error()
		}
		open := x.r.OpenPaths()
		for _, h := range hdrs {
			if h.Typeflag != int64(tar.TypeReg) || h.Linkname != "" {
				continue
			}
			p := observe.Clean(h.Name)
			if open[p] {
				continue
			}
			mem, ok := sc.AtRB(h.Record, h.Block, x.cfg.RecordSize)
			if !ok {
				return fmt.Sprintf("content record of %s (record %d block %d) is not the start of a tar member", p, h.Record, h.Block)
			}
			data, err := observe.ReadAll(hist.Call, x.r.W.FS, p)
			checkObs(x.f, hangOnly(err), "read "+p)
			if err != nil {
				return fmt.Sprintf("live file %s cannot be read: %v", p, err)
			}
			if !bytes.Equal(mem.Body, data) {
				return fmt.Sprintf("tar member data at the content record of %s (%d bytes) differs from the file's content (%d bytes)", p, len(mem.Body), len(data))
			}
		}
	}
	return ""
}

func hangOnly(err error) error {
	if _, ok := err.(*observe.HangError); ok {
		return err
	}
	return nil
}

func (o *c05) End(x *hctx) string { return "" }
func (o *c05) Nontrivial(x *hctx) bool {
	return o.archives >= 3 && o.rejected >= 1
}

var fsWeights = map[string]int{
	"create": 6, "openfile": 5, "write": 8, "writestring": 2, "sync": 1, "close": 8,
	"mkdir": 6, "mkdirall": 3, "remove": 4, "removeall": 3, "rename": 6,
	"chmod": 2, "chown": 2, "chtimes": 2, "stat": 1, "list": 1, "reopen": 1, "rebuild": 1,
}

func init() {
	historyOracles["C05"] = func() oracle { return &c05{} }
}

func TestC05(t *testing.T) {
	rapid.Check(t, func(t *rapid.T) {
		cfg := hist.DrawCfg(t, 50, nil)
		opts := world.Opts{}
		switch rapid.IntRange(0, 5).Draw(t, "drive-variant") {
		case 0:
			opts.Overwrite = true // the first writer starts the tape over: that is the one explicit overwrite
			if rapid.Bool().Draw(t, "failing-open") {
				// one later attempt to open the drive for writing fails (its directory is gone for
				// the moment): that call appends nothing, and the next writer still only appends
				opts.Probe = &world.Probe{}
				opts.Probe.Arm(world.SeamOpenWriter, rapid.IntRange(2, 7).Draw(t, "failing-open-k"), false)
				live.S.Class("overwrite-manager:one-failing-open")
			}
		case 1:
			opts.TapeLikeWriter = true
			cfg = tapeLikeCfg(cfg)
		}
		rapidHistoryOpts(t, "C05", cfg, fsWeights, hist.Universe, &c05{}, avoidFor("C05"), opts)
	})
}

// tapeLikeCfg maps a configuration onto one that the write path accepts for a
// non-regular drive (minisign, brotli and parallelgzip are regular-file only; gzip and lz4
// need records of at least 64 KiB).
func tapeLikeCfg(cfg world.Cfg) world.Cfg {
	if cfg.Signature == "minisign" {
		cfg.Signature = "pgp"
	}
	switch cfg.Compression {
	case "brotli", "parallelgzip":
		cfg.Compression = "bzip2"
	case "zstandard":
		if cfg.RecordSize < 2 {
			cfg.Compression = "bzip2" // the window (a record) must be at least 1024 bytes
		}
	case "gzip", "lz4":
		if cfg.RecordSize < 128 {
			cfg.Compression = "bzip2"
		}
	}
	return cfg
}
