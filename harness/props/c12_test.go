package props

import (
	"fmt"
	"os"
	"path"
	"path/filepath"
	"sort"
	"strings"
	"testing"

	"pgregory.net/rapid"
	"verif/harness/hist"
	"verif/harness/live"
	"verif/harness/observe"
	"verif/harness/world"
)

// C12 — recursive remove and rename touch exactly the named subtree.

type c12Entry struct {
	Path string `json:"path"`
	Dir  bool   `json:"dir"`
	Size int    `json:"size,omitempty"`
	Seed uint64 `json:"seed,omitempty"`
}

type c12Case struct {
	Tree []c12Entry `json:"tree"`
	Dsts []string   `json:"dsts"` // rename destinations tried for every directory
	// Rebuilt: the calls run on instances whose index was rebuilt from the tape (names are
	// then stored relative to the root) instead of on copies of the live index
	Rebuilt bool `json:"rebuilt,omitempty"`
}

var c12Universe = []string{"a", "ab", "a_", "a%", "A", "a b", ".a", "a.", "é", "_", "%", "aa", "b", "B", "a\\", "a?", "a*", "[ab]", "a[b]", "?", "*", "😀", "𝄞a", "a😀", "\uffff", "\uffffz", "~", "\x7f", "..x", "...", "a..", "-", "\U0010ffff", "\U0010ffffz"}

// sqlLike reports whether name matches the LIKE pattern (ASCII case-insensitive, _ and %).
func sqlLike(pattern, name string) bool {
	p, n := []rune(strings.ToLower(pattern)), []rune(strings.ToLower(name))
	var rec func(i, j int) bool
	rec = func(i, j int) bool {
		if i == len(p) {
			return j == len(n)
		}
		switch p[i] {
		case '%':
			for k := j; k <= len(n); k++ {
				if rec(i+1, k) {
					return true
				}
			}
			return false
		case '_':
			return j < len(n) && rec(i+1, j+1)
		default:
			return j < len(n) && p[i] == n[j] && rec(i+1, j+1)
		}
	}
	return rec(0, 0)
}

func within(p, d string) bool { return p == d || strings.HasPrefix(p, d+"/") }

func c12Run(f failer, cfg world.Cfg, c c12Case) {
	live.J.Begin(hist.Case{Property: "C12", Cfg: cfg, Params: hist.Params{"c12": c}, Steps: []hist.Step{}})
	base, err := hist.NewRunner(cfg, world.Opts{})
	if err != nil {
		failf(f, "cannot build world: %v", err)
	}
	defer base.Finish()
	for _, e := range c.Tree {
		var steps []hist.Step
		if e.Dir {
			steps = []hist.Step{{Op: "mkdir", Path: e.Path, Perm: 0755}}
		} else {
			steps = []hist.Step{{Op: "create", Path: e.Path, Slot: 0}, {Op: "write", Slot: 0, Size: e.Size, Dist: 3, Seed: e.Seed}, {Op: "close", Slot: 0}}
		}
		for _, s := range steps {
			res := base.Do(s)
			if res.Hang != nil {
				busyIsInconclusive(f, res.Hang)
				failf(f, "building the tree: %s: %s", s, res.Hang.Detail)
			}
			if res.Err != nil {
				failf(f, "building the tree: %s failed: %v", s, res.Err)
			}
		}
	}
	before, e := observe.Snapshot(hist.Call, base.W.FS, true)
	checkObs(f, e, "snapshot")
	if len(before.Errs) > 0 {
		failf(f, "the generated tree does not walk cleanly: %v", before.Errs)
	}
	base.W.Close()
	bm := map[string]observe.Entry{}
	var dirs []string
	for _, en := range before.Entries {
		bm[en.Path] = en
		if en.Kind == "dir" && en.Path != "/" {
			dirs = append(dirs, en.Path)
		}
	}
	sort.Strings(dirs)
	side := world.NewDir("c12")
	defer os.RemoveAll(side)
	n := 0
	nontrivial := false
	hasKids := func(d string) bool {
		for p := range bm {
			if strings.HasPrefix(p, d+"/") {
				return true
			}
		}
		return false
	}
	fresh := func() *hist.Runner {
		n++
		d := filepath.Join(side, fmt.Sprintf("w%d", n))
		_ = os.MkdirAll(filepath.Join(d, "drv"), 0700)
		drv, db := filepath.Join(d, "drv", "drive.tar"), filepath.Join(d, "index.sqlite")
		_ = world.CopyFile(drv, base.W.Drive)
		if !c.Rebuilt {
			_ = world.CopyFile(db, base.W.DB)
		}
		r, err := hist.NewRunner(cfg, world.Opts{Dir: d, Drive: drv, DB: db})
		if err != nil {
			checkObs(f, hangOnly(err), "construct")
			failf(f, "cannot reopen the tree: %v", err)
		}
		return r
	}
	judge := func(r *hist.Runner, what string, expect map[string]observe.Entry) {
		after, e := observe.Snapshot(hist.Call, r.W.FS, true)
		checkObs(f, e, "snapshot")
		if len(after.Errs) > 0 {
			failf(f, "%s: the tree no longer walks cleanly: %v", what, after.Errs)
		}
		am := map[string]observe.Entry{}
		for _, en := range after.Entries {
			am[en.Path] = en
		}
		var out []string
		for p, want := range expect {
			got, ok := am[p]
			if !ok {
				out = append(out, "missing afterwards: "+p)
				continue
			}
			want.Path, got.Path = "", ""
			want.Content, got.Content = nil, nil
			want.Note, got.Note = "", ""
			if fmt.Sprintf("%+v", want) != fmt.Sprintf("%+v", got) {
				out = append(out, fmt.Sprintf("altered: %s\n      expected %+v\n      found    %+v", p, want, got))
			}
		}
		for p := range am {
			if _, ok := expect[p]; !ok {
				out = append(out, "unexpected afterwards: "+p)
			}
		}
		if len(out) > 0 {
			sort.Strings(out)
			if len(out) > 10 {
				out = out[:10]
			}
			failf(f, "%s:\n%s", what, strings.Join(out, "\n"))
		}
		live.S.AddInner(1)
	}
	for _, d := range dirs {
		// is this a directory whose name invites over-matching?
		for _, s := range dirs {
			if s != d && path.Dir(s) == path.Dir(d) && hasKids(s) && hasKids(d) &&
				(sqlLike(path.Base(d), path.Base(s)) || strings.HasPrefix(path.Base(s), path.Base(d))) {
				nontrivial = true
			}
		}
		// ---- RemoveAll(d) ----
		r := fresh()
		res := r.Do(hist.Step{Op: "removeall", Path: d})
		if res.Hang != nil {
			busyIsInconclusive(f, res.Hang)
			failf(f, "RemoveAll(%q): %s", d, res.Hang.Detail)
		}
		if res.Err != nil {
			failf(f, "RemoveAll(%q) failed: %v", d, res.Err)
		}
		expect := map[string]observe.Entry{}
		for p, en := range bm {
			if !within(p, d) {
				expect[p] = en
			}
		}
		judge(r, fmt.Sprintf("after RemoveAll(%q)", d), expect)
		r.Finish()
		// ---- Rename(d, dst) ----
		for _, dst := range c.Dsts {
			dst = hist_clean(dst)
			r := fresh()
			res := r.Do(hist.Step{Op: "rename", Path: d, Path2: dst})
			if res.Hang != nil {
				busyIsInconclusive(f, res.Hang)
				failf(f, "Rename(%q,%q): %s", d, dst, res.Hang.Detail)
			}
			// reference outcome
			par, parOK := bm[path.Dir(dst)]
			tgt, tgtExists := bm[dst]
			wantErr := ""
			switch {
			case dst == "/" || !parOK || par.Kind != "dir":
				wantErr = "destination parent missing or not a directory"
			case within(dst, d) && dst != d:
				wantErr = "destination inside the source"
			case tgtExists && dst != d && tgt.Kind != "dir":
				wantErr = "destination is a file"
			case tgtExists && dst != d && hasKids(dst):
				wantErr = "destination directory not empty"
			}
			expect := map[string]observe.Entry{}
			if wantErr != "" {
				if res.Err == nil {
					failf(f, "Rename(%q,%q) succeeded although %s", d, dst, wantErr)
				}
				for p, en := range bm {
					expect[p] = en
				}
			} else {
				if res.Err != nil {
					failf(f, "Rename(%q,%q) failed: %v", d, dst, res.Err)
				}
				for p, en := range bm {
					switch {
					case within(p, d):
						np := dst + strings.TrimPrefix(p, d)
						en.Path = np
						expect[np] = en
					case p == dst:
						// replaced
					default:
						if _, moved := expect[p]; !moved {
							expect[p] = en
						}
					}
				}
			}
			judge(r, fmt.Sprintf("after Rename(%q,%q) (err=%v)", d, dst, res.Err), expect)
			// the result is still reproducible from the tape
			x := &hctx{prop: "C12", f: f, cfg: cfg, r: r}
			if msg := rebuildEquivalence(x); msg != "" {
				failf(f, "after Rename(%q,%q): %s", d, dst, msg)
			}
			r.Finish()
		}
	}
	live.S.Class(fmt.Sprintf("dirs:%d", len(dirs)))
	live.S.Case(cfg.String(), nontrivial && len(dirs) >= 2, live.J.Digest(), func() interface{} {
		return map[string]interface{}{"cfg": cfg.String(), "case": c}
	})
	live.S.Flush()
}

func TestC12(t *testing.T) {
	rapid.Check(t, func(t *rapid.T) {
		cfg := hist.DrawCfg(t, 85, []int{1, 3, 20})
		idx := rapid.SliceOfNDistinct(rapid.IntRange(0, len(c12Universe)-1), 3, 5, rapid.ID[int]).Draw(t, "comps")
		var comps []string
		for _, i := range idx {
			comps = append(comps, c12Universe[i])
		}
		// grow a tree: every new entry hangs below an existing directory
		dirs := []string{"/"}
		seen := map[string]bool{"/": true}
		var c c12Case
		add := func(p string, isDir bool, size int) {
			if seen[p] {
				return
			}
			seen[p] = true
			e := c12Entry{Path: p, Dir: isDir, Size: size, Seed: uint64(len(c.Tree) + 1)}
			if isDir {
				dirs = append(dirs, p)
			}
			c.Tree = append(c.Tree, e)
		}
		// a group of confusable sibling directories, each with children
		groups := [][]string{{"😀", "a", "\uffff", "𝄞a"}, {"a😀", "a", "ab"}, {"a?", "ab", "a*", "abc"}, {"[ab]", "a", "b", "a[b]"}, {"*", "a", "?"}, {"a", "a_", "ab", "A"}, {"a%", "ab", "aa", "a"}, {"a", "A", "a."}, {"_", "a", "b", "%"}, {"a b", "a", "ab"}, {"a\\", "a", "a_"}, {"é", "a", "B", "b"}}
		if rapid.IntRange(0, 9).Draw(t, "confusable") < 8 {
			grp := rapid.SampledFrom(groups).Draw(t, "group")
			base := "/"
			if rapid.Bool().Draw(t, "nested") {
				base = "/" + rapid.SampledFrom(comps).Draw(t, "basecomp")
				add(base, true, 0)
			}
			k := rapid.IntRange(2, len(grp)).Draw(t, "groupsize")
			for _, name := range grp[:k] {
				d := path.Join(base, name)
				add(d, true, 0)
				if seen[d] {
					add(path.Join(d, rapid.SampledFrom(append(append([]string{}, comps...), c12Universe...)).Draw(t, "kid")), rapid.Bool().Draw(t, "kiddir"), rapid.IntRange(0, 20).Draw(t, "kidsize"))
				}
			}
		}
		n := rapid.IntRange(0, 10).Draw(t, "entries")
		for i := 0; i < n; i++ {
			par := rapid.SampledFrom(dirs).Draw(t, "parent")
			if strings.Count(par, "/") >= 4 {
				par = "/"
			}
			p := path.Join(par, rapid.SampledFrom(comps).Draw(t, "comp"))
			if seen[p] {
				continue
			}
			seen[p] = true
			isDir := rapid.IntRange(0, 9).Draw(t, "isdir") < 6
			e := c12Entry{Path: p, Dir: isDir}
			if isDir {
				dirs = append(dirs, p)
			} else {
				e.Size = rapid.IntRange(0, 40).Draw(t, "size")
				e.Seed = uint64(i + 1)
			}
			c.Tree = append(c.Tree, e)
		}
		// destinations: existing names, fresh names, names below other directories
		nd := rapid.IntRange(1, 3).Draw(t, "ndst")
		var all []string
		for p := range seen {
			all = append(all, p)
		}
		sort.Strings(all)
		for i := 0; i < nd; i++ {
			switch rapid.IntRange(0, 3).Draw(t, "dstkind") {
			case 0:
				c.Dsts = append(c.Dsts, rapid.SampledFrom(all).Draw(t, "dst"))
			case 1:
				c.Dsts = append(c.Dsts, path.Join(rapid.SampledFrom(dirs).Draw(t, "dstdir"), rapid.SampledFrom(c12Universe).Draw(t, "dstname")))
			case 2:
				c.Dsts = append(c.Dsts, path.Join(rapid.SampledFrom(all).Draw(t, "dst"), rapid.SampledFrom(comps).Draw(t, "dstname")))
			default:
				c.Dsts = append(c.Dsts, "/"+rapid.SampledFrom(c12Universe).Draw(t, "dstname"))
			}
		}
		c.Rebuilt = rapid.IntRange(0, 2).Draw(t, "rebuilt") == 0
		if c.Rebuilt {
			live.S.Class("index:rebuilt")
		}
		c12Run(t, cfg, c)
	})
}

func init() {
	customReplays["C12"] = func(t *testing.T, c *hist.Case, path string) {
		var cc c12Case
		remarshal(c.Params["c12"], &cc)
		c12Run(t, c.Cfg, cc)
	}
}
