package props

import (
	"archive/tar"
	"bytes"
	"encoding/hex"
	"fmt"
	"io"
	"strings"
	"testing"
	"time"
	"unicode"

	"filippo.io/age"
	"github.com/pojntfx/stfs/pkg/config"
	"github.com/pojntfx/stfs/pkg/encryption"
	"github.com/pojntfx/stfs/pkg/keys"
	"github.com/pojntfx/stfs/pkg/signature"
	"github.com/pojntfx/stfs/pkg/utility"
	"pgregory.net/rapid"
	"verif/harness/hist"
	"verif/harness/live"
)

// C18 — generated keys work, and only with the right password.

type c18Case struct {
	Use      string   `json:"use"`    // encryption | signature
	Format   string   `json:"format"` // age | pgp | minisign
	Password string   `json:"password"`
	Other    string   `json:"other_password"` // password of the second pair
	Wrong    []string `json:"wrong_passwords"`
	MsgSize  int      `json:"msg_size"`
	MsgDist  int      `json:"msg_dist"`
	MsgSeed  uint64   `json:"msg_seed"`
	// WrappedHex: a recorded password-wrapped age identity that failed to parse (replay only)
	WrappedHex string `json:"age_wrapped_hex,omitempty"`
}

type keyPair struct {
	priv, pub []byte
	id, rc    interface{}
}

func c18Keygen(f failer, c c18Case, pw string) keyPair {
	pipes := config.PipeConfig{}
	if c.Use == "encryption" {
		pipes.Encryption = c.Format
	} else {
		pipes.Signature = c.Format
	}
	priv, pub, err := utility.Keygen(pipes, config.PasswordConfig{Password: pw})
	if err != nil {
		failf(f, "Keygen(%s %s, password %q) failed: %v", c.Use, c.Format, pw, err)
	}
	return keyPair{priv: priv, pub: pub}
}

func c18ParseID(c c18Case, priv []byte, pw string) (interface{}, error) {
	if c.Use == "encryption" {
		return keys.ParseIdentity(c.Format, priv, pw)
	}
	return keys.ParseSignerIdentity(c.Format, priv, pw)
}

func c18ParseRC(c c18Case, pub []byte) (interface{}, error) {
	if c.Use == "encryption" {
		return keys.ParseRecipient(c.Format, pub)
	}
	return keys.ParseSignerRecipient(c.Format, pub)
}

func c18Run(f failer, c c18Case) {
	live.J.Begin(hist.Case{Property: "C18", Params: hist.Params{"c18": c}, Steps: []hist.Step{}})
	if c.WrappedHex != "" {
		raw, _ := hex.DecodeString(c.WrappedHex)
		if _, err := keys.ParseIdentity("age", raw, c.Password); err != nil {
			failf(f, "a password-wrapped age identity (last byte 0x%02x, %d bytes) does not parse with its own password %q: %v", raw[len(raw)-1], len(raw), c.Password, err)
		}
	}
	msg := hist.Bytes(c.MsgSize, c.MsgDist, c.MsgSeed)
	a := c18Keygen(f, c, c.Password)
	b := c18Keygen(f, c, c.Other)
	privBefore, pubBefore := append([]byte(nil), a.priv...), append([]byte(nil), a.pub...)
	var err error
	if a.id, err = c18ParseID(c, a.priv, c.Password); err != nil {
		failf(f, "parsing the freshly generated %s %s private key with its own password %q failed: %v", c.Format, c.Use, c.Password, err)
	}
	if a.rc, err = c18ParseRC(c, a.pub); err != nil {
		failf(f, "parsing the freshly generated %s public key failed: %v", c.Format, err)
	}
	if b.id, err = c18ParseID(c, b.priv, c.Other); err != nil {
		failf(f, "parsing the second pair's private key failed: %v", err)
	}
	if b.rc, err = c18ParseRC(c, b.pub); err != nil {
		failf(f, "parsing the second pair's public key failed: %v", err)
	}
	hdr := &tar.Header{Typeflag: tar.TypeReg, Name: "/some/file.txt", Size: int64(len(msg)), Mode: 0640, Uid: 1000, Gid: 100, ModTime: time.Unix(1700000000, 0).UTC(), Format: tar.FormatPAX, PAXRecords: map[string]string{"STFS.Version": "1"}}
	if c.Use == "encryption" {
		// string
		ct, err := encryption.EncryptString(string(msg), c.Format, a.rc)
		if err != nil {
			failf(f, "EncryptString: %v", err)
		}
		pt, err := encryption.DecryptString(ct, c.Format, a.id)
		if err != nil || pt != string(msg) {
			failf(f, "EncryptString/DecryptString round trip with a fresh %s pair (password %q): err=%v, %d bytes in, %d out", c.Format, c.Password, err, len(msg), len(pt))
		}
		if pt2, err := encryption.DecryptString(ct, c.Format, b.id); err == nil {
			failf(f, "%s: the private key of another pair decrypted the string (%d bytes) without an error", c.Format, len(pt2))
		}
		// stream
		var buf bytes.Buffer
		w, err := encryption.Encrypt(&buf, c.Format, a.rc)
		if err != nil {
			failf(f, "Encrypt: %v", err)
		}
		w.Write(msg)
		if err := w.Close(); err != nil {
			failf(f, "Encrypt close: %v", err)
		}
		r, err := encryption.Decrypt(bytes.NewReader(buf.Bytes()), c.Format, a.id)
		if err != nil {
			failf(f, "Decrypt with the matching key: %v", err)
		}
		got, err := io.ReadAll(r)
		if err != nil || !bytes.Equal(got, msg) {
			failf(f, "Encrypt/Decrypt round trip: err=%v, %d in, %d out", err, len(msg), len(got))
		}
		if r2, err := encryption.Decrypt(bytes.NewReader(buf.Bytes()), c.Format, b.id); err == nil {
			if got2, err2 := io.ReadAll(r2); err2 == nil {
				failf(f, "%s: the private key of another pair decrypted the stream (%d bytes) without an error", c.Format, len(got2))
			}
		}
		// header
		h := *hdr
		if err := encryption.EncryptHeader(&h, c.Format, a.rc); err != nil {
			failf(f, "EncryptHeader: %v", err)
		}
		h2 := h
		if err := encryption.DecryptHeader(&h, c.Format, a.id); err != nil || h.Name != hdr.Name || h.Size != hdr.Size || h.Mode != hdr.Mode || !h.ModTime.Equal(hdr.ModTime) {
			failf(f, "EncryptHeader/DecryptHeader round trip: err=%v, got %+v", err, h)
		}
		if err := encryption.DecryptHeader(&h2, c.Format, b.id); err == nil {
			failf(f, "%s: the private key of another pair decrypted the header without an error", c.Format)
		}
	} else {
		sig, err := signature.SignString(string(msg), true, c.Format, a.id)
		if err != nil {
			failf(f, "SignString with a fresh %s key (password %q): %v", c.Format, c.Password, err)
		}
		if err := signature.VerifyString(string(msg), true, c.Format, a.rc, sig); err != nil {
			failf(f, "SignString/VerifyString round trip: %v", err)
		}
		if err := signature.VerifyString(string(msg), true, c.Format, b.rc, sig); err == nil {
			failf(f, "%s: the public key of another pair verified the string signature", c.Format)
		}
		if err := signature.VerifyString(string(msg)+"x", true, c.Format, a.rc, sig); err == nil {
			failf(f, "%s: the signature verified for a different message", c.Format)
		}
		// stream
		sr, sign, err := signature.Sign(bytes.NewReader(msg), true, c.Format, a.id)
		if err != nil {
			failf(f, "Sign: %v", err)
		}
		io.Copy(io.Discard, sr)
		ssig, err := sign()
		if err != nil {
			failf(f, "sign(): %v", err)
		}
		for _, tc := range []struct {
			rc   interface{}
			data []byte
			ok   bool
			what string
		}{{a.rc, msg, true, "matching key"}, {b.rc, msg, false, "public key of another pair"}, {a.rc, append(append([]byte{}, msg...), 'x'), false, "altered content"}} {
			vr, verify, err := signature.Verify(bytes.NewReader(tc.data), true, c.Format, tc.rc, ssig)
			if err != nil {
				if tc.ok {
					failf(f, "Verify (%s): %v", tc.what, err)
				}
				continue
			}
			io.Copy(io.Discard, vr)
			verr := verify()
			if tc.ok && verr != nil {
				failf(f, "Sign/Verify round trip: %v", verr)
			}
			if !tc.ok && verr == nil {
				failf(f, "%s: stream signature verified with the %s", c.Format, tc.what)
			}
		}
		// header
		h := *hdr
		if err := signature.SignHeader(&h, true, c.Format, a.id); err != nil {
			failf(f, "SignHeader: %v", err)
		}
		h2 := h
		h2.PAXRecords = map[string]string{}
		for k, v := range h.PAXRecords {
			h2.PAXRecords[k] = v
		}
		if err := signature.VerifyHeader(&h, true, c.Format, a.rc); err != nil || h.Name != hdr.Name || h.Size != hdr.Size {
			failf(f, "SignHeader/VerifyHeader round trip: err=%v got %+v", err, h)
		}
		if err := signature.VerifyHeader(&h2, true, c.Format, b.rc); err == nil {
			failf(f, "%s: the public key of another pair verified the header", c.Format)
		}
	}
	// age: many more password-wrapped identities than Keygen's scrypt cost allows, wrapped exactly as
	// Keygen does but with a low scrypt work factor: each must parse with its password, and be the key
	if c.Format == "age" && c.Use == "encryption" && c.Password != "" {
		for i := 0; i < *ageWraps; i++ {
			id, err := age.GenerateX25519Identity()
			if err != nil {
				failf(f, "age keygen: %v", err)
			}
			rcp, err := age.NewScryptRecipient(c.Password)
			if err != nil {
				failf(f, "scrypt recipient: %v", err)
			}
			rcp.SetWorkFactor(10)
			var out bytes.Buffer
			w, err := age.Encrypt(&out, rcp)
			if err != nil {
				failf(f, "age wrap: %v", err)
			}
			io.WriteString(w, id.String())
			if err := w.Close(); err != nil {
				failf(f, "age wrap close: %v", err)
			}
			parsed, err := keys.ParseIdentity("age", out.Bytes(), c.Password)
			live.S.AddInner(1)
			if err != nil {
				// keys come from crypto/rand: record the failing input so that the replay is exact
				live.J.Add(map[string]interface{}{"param": map[string]string{"age_wrapped_hex": hex.EncodeToString(out.Bytes())}})
				failf(f, "a password-wrapped age identity (last byte 0x%02x, %d bytes) does not parse with its own password %q: %v", out.Bytes()[out.Len()-1], out.Len(), c.Password, err)
			}
			if pid, ok := parsed.(*age.X25519Identity); !ok || pid.String() != id.String() {
				failf(f, "a password-wrapped age identity parses to a different key")
			}
			pub, err := keys.ParseRecipient("age", []byte(id.Recipient().String()))
			if err != nil || pub.(*age.X25519Recipient).String() != id.Recipient().String() {
				failf(f, "an age recipient does not parse back: %v", err)
			}
		}
	}
	// wrong passwords
	for _, w := range c.Wrong {
		if w == c.Password {
			continue
		}
		id, err := c18ParseID(c, a.priv, w)
		live.S.AddInner(1)
		if err == nil {
			// a key that parses but cannot be used is still a key that "parsed with a different password"
			failf(f, "%s %s key generated with password %q parsed without an error with the different password %q (%T)", c.Format, c.Use, c.Password, w, id)
		}
	}
	// the key material is the caller's: parsing it (successfully or not) neither changes it nor
	// uses it up, so the same bytes parse again with the right password
	if !bytes.Equal(a.priv, privBefore) || !bytes.Equal(a.pub, pubBefore) {
		failf(f, "parsing changed the caller's %s %s key bytes", c.Format, c.Use)
	}
	if c.Format != "minisign" { // (one more scrypt round at 1 GiB is not worth it there)
		for i := 0; i < 2; i++ {
			if _, err := c18ParseID(c, a.priv, c.Password); err != nil {
				failf(f, "the %s %s private key no longer parses with its own password %q after earlier parse attempts (%d wrong ones): %v", c.Format, c.Use, c.Password, len(c.Wrong), err)
			}
			live.S.AddInner(1)
		}
		if !bytes.Equal(a.priv, privBefore) {
			failf(f, "parsing changed the caller's %s %s key bytes", c.Format, c.Use)
		}
	}
	pwClass := "pw:ascii"
	switch {
	case c.Password == "":
		pwClass = "pw:empty"
	case len(c.Password) > 200:
		pwClass = "pw:long"
	case !isASCII(c.Password):
		pwClass = "pw:multibyte"
	case strings.ContainsAny(c.Password, " \t\n"):
		pwClass = "pw:whitespace"
	}
	live.S.Class(pwClass)
	live.S.Class("format:" + c.Use + "/" + c.Format)
	nt := c.Password != "" && len(c.Wrong) > 0
	live.S.Case(c.Use+"/"+c.Format, nt, fmt.Sprintf("%s|%s|%s|%d", c.Use, c.Format, pwClass, len(c.Wrong)), func() interface{} { return c })
	live.S.Flush()
}

func flipCase(s string) string {
	r := []rune(s)
	for i, c := range r {
		if unicode.IsLower(c) {
			r[i] = unicode.ToUpper(c)
			return string(r)
		}
		if unicode.IsUpper(c) {
			r[i] = unicode.ToLower(c)
			return string(r)
		}
	}
	return s + "X"
}

var c18Passwords = []string{"", "", "hunter2", "correct horse battery staple", "pässwörd-ünïcode", "密码パスワード🔑", " leading and trailing ", "tab\tand\nnewline", "a", strings.Repeat("long-password-", 22),
	"ends-in-newline\n", "ends-in-crlf\r\n", "\n", " ", "ends in blank ", "\tstarts-with-tab", "e\u0301 decomposed", "\u00e9 composed", "caf\u00e9", "cafe\u0301", "m\u00fcll-\u00e9"}

func TestC18(t *testing.T) {
	rapid.Check(t, func(t *rapid.T) {
		var c c18Case
		k := rapid.SampledFrom([]string{"encryption/age", "encryption/pgp", "encryption/pgp", "signature/pgp", "signature/pgp", "encryption/age", "signature/minisign"}).Draw(t, "format")
		if *noMinisign && k == "signature/minisign" {
			k = "signature/pgp"
		}
		c.Use, c.Format = strings.Split(k, "/")[0], strings.Split(k, "/")[1]
		c.Password = rapid.SampledFrom(c18Passwords).Draw(t, "password")
		if rapid.IntRange(0, 3).Draw(t, "genpw") == 0 {
			c.Password = rapid.StringN(1, 40, 120).Filter(func(s string) bool { return !strings.ContainsRune(s, 0) }).Draw(t, "random_password")
		}
		c.Other = rapid.SampledFrom(c18Passwords).Draw(t, "other")
		cands := []string{"", c.Password + "x", flipCase(c.Password), c.Other}
		if len(c.Password) > 1 {
			cands = append(cands, c.Password[:len(c.Password)/2])
		}
		// differences a sloppy normalisation would erase: white space at the ends, line ends
		cands = append(cands, c.Password+"\n", c.Password+"\r\n", c.Password+" ", " "+c.Password, strings.TrimSpace(c.Password), strings.TrimRight(c.Password, "\r\n"), strings.ToLower(c.Password))
		// the same text in the other Unicode normalisation form is a different password
		if alt := strings.NewReplacer("\u00e9", "e\u0301", "\u00fc", "u\u0308").Replace(c.Password); alt != c.Password {
			cands = append(cands, alt)
		}
		if alt := strings.NewReplacer("e\u0301", "\u00e9", "u\u0308", "\u00fc").Replace(c.Password); alt != c.Password {
			cands = append(cands, alt)
		}
		cands = rapid.Permutation(cands).Draw(t, "wrong_order")
		nw := rapid.IntRange(1, 3).Draw(t, "nwrong")
		if c.Format == "minisign" {
			nw = 1 // scrypt at 1 GiB / several seconds per attempt
		}
		seen := map[string]bool{c.Password: true}
		for _, w := range cands {
			if !seen[w] && len(c.Wrong) < nw {
				seen[w] = true
				c.Wrong = append(c.Wrong, w)
			}
		}
		c.MsgSize = rapid.SampledFrom([]int{0, 1, 64, 511, 512, 513, 5000}).Draw(t, "msg_size")
		c.MsgDist = rapid.IntRange(0, 3).Draw(t, "msg_dist")
		c.MsgSeed = rapid.Uint64Range(0, 1000).Draw(t, "msg_seed")
		c18Run(t, c)
	})
}

func init() {
	customReplays["C18"] = func(t *testing.T, c *hist.Case, path string) {
		var cc c18Case
		remarshal(c.Params["c18"], &cc)
		if h, ok := c.Params["age_wrapped_hex"].(string); ok {
			cc.WrappedHex = h
		}
		c18Run(t, cc)
	}
}
