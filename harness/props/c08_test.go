package props

import (
	"archive/tar"
	"bytes"
	"context"
	"encoding/base64"
	"encoding/json"
	"fmt"
	"io"
	iofs "io/fs"
	"os"
	"path/filepath"
	"sort"
	"strings"
	"testing"

	"github.com/pojntfx/stfs/pkg/config"
	"github.com/pojntfx/stfs/pkg/encryption"
	"github.com/pojntfx/stfs/pkg/signature"
	"pgregory.net/rapid"
	"verif/harness/hist"
	"verif/harness/live"
	"verif/harness/observe"
	"verif/harness/world"
)

// C08 — with signatures on, nothing unsigned or altered is ever accepted.

type c08Forgery struct {
	Kind   string `json:"kind"`
	Member int    `json:"member"`
	Other  int    `json:"other"`
	Field  string `json:"field"`
	Sig    string `json:"sig"` // replacement signature for the garbage kinds
	Pos    int    `json:"pos"` // byte edits
	Xor    int    `json:"xor"`
}

type c08Case struct {
	Forgeries []c08Forgery `json:"forgeries"`
	ByteEdits int          `json:"byte_edits"` // number of enumerated single-byte edits (0 = none, -1 = all)
}

func headerKey(h *config.Header) string {
	c := *h
	c.Record, c.Block, c.Lastknownrecord, c.Lastknownblock = 0, 0, 0, 0
	b, _ := json.Marshal(c)
	return string(b)
}

// legit collects what the legitimate writer signed: accepted headers of the untouched
// tape and the content restored under each.
type legit struct {
	keys     map[string]bool
	contents map[string][][]byte // entry name -> every content the writer signed under that name
}

func collectLegit(f failer, cfg world.Cfg, dir string, raw []byte) (*legit, []*config.Header) {
	d := filepath.Join(dir, "legit")
	_ = os.MkdirAll(filepath.Join(d, "drv"), 0700)
	drv := filepath.Join(d, "drv", "drive.tar")
	_ = os.WriteFile(drv, raw, 0600)
	w := worldOver(f, cfg, d, drv, filepath.Join(d, "index.sqlite"), false)
	defer w.Close()
	lg := &legit{keys: map[string]bool{}, contents: map[string][][]byte{}}
	var hs []*config.Header
	var err error
	checkObs(f, hist.Call("index legit", func() {
		err = w.Reindex(true, func(h *config.Header) { c := *h; hs = append(hs, &c) })
	}), "index of the legitimate tape")
	if err != nil {
		failf(f, "the legitimate tape does not index: %v", err)
	}
	// the same tape read by someone who trusts another writer's key: after the owner's reading
	// above, in the same process, nothing of it may be accepted
	if len(hs) > 0 {
		d2 := filepath.Join(dir, "otherkey")
		_ = os.MkdirAll(filepath.Join(d2, "drv"), 0700)
		drv2 := filepath.Join(d2, "drv", "drive.tar")
		_ = os.WriteFile(drv2, raw, 0600)
		var w2 *world.World
		var err2 error
		checkObs(f, hist.Call("construct other-key reader", func() {
			w2, err2 = world.New(cfg, world.Opts{Dir: d2, Drive: drv2, StrangerSig: true, NoInit: true})
		}), "construct")
		if err2 != nil {
			failf(f, "cannot construct the other-key reader: %v", err2)
		}
		accepted := 0
		var ierr error
		checkObs(f, hist.Call("index with another writer's public key", func() {
			ierr = w2.Reindex(true, func(*config.Header) { accepted++ })
		}), "index with another key")
		rows, _ := observe.IndexDump(w2.DB)
		if ierr == nil || accepted > 0 || len(rows) > 0 {
			w2.Close()
			failf(f, "a reader that verifies with another writer's public key accepted the tape: err=%v, %d headers accepted, %d rows", ierr, accepted, len(rows))
		}
		for _, h := range hs {
			if h.Typeflag != int64(tar.TypeReg) {
				continue
			}
			if data, err := fetchAt(f, w2, h.Record, h.Block); err == nil {
				w2.Close()
				failf(f, "Fetch at (%d,%d) verified with another writer's public key (%d bytes)", h.Record, h.Block, len(data))
			}
			live.S.AddInner(1)
		}
		w2.Close()
		live.S.Class("other-key-reader-judged")
		if cfg.Signature == "pgp" {
			// ... and by a reader whose keyring is empty (an empty public key file parses to that)
			d3 := filepath.Join(dir, "nokey")
			_ = os.MkdirAll(filepath.Join(d3, "drv"), 0700)
			drv3 := filepath.Join(d3, "drv", "drive.tar")
			_ = os.WriteFile(drv3, raw, 0600)
			var w3 *world.World
			var err3 error
			checkObs(f, hist.Call("construct empty-keyring reader", func() {
				w3, err3 = world.New(cfg, world.Opts{Dir: d3, Drive: drv3, EmptySigKeyring: true, NoInit: true})
			}), "construct")
			if err3 != nil {
				failf(f, "cannot construct the empty-keyring reader: %v", err3)
			}
			n3 := 0
			var ierr3 error
			checkObs(f, hist.Call("index with an empty keyring", func() {
				ierr3 = w3.Reindex(true, func(*config.Header) { n3++ })
			}), "index with an empty keyring")
			rows3, _ := observe.IndexDump(w3.DB)
			if ierr3 == nil || n3 > 0 || len(rows3) > 0 {
				w3.Close()
				failf(f, "a reader with an empty pgp keyring accepted the tape: err=%v, %d headers accepted, %d rows", ierr3, n3, len(rows3))
			}
			for _, h := range hs {
				if h.Typeflag == int64(tar.TypeReg) {
					if data, err := fetchAt(f, w3, h.Record, h.Block); err == nil {
						w3.Close()
						failf(f, "Fetch at (%d,%d) verified against an empty pgp keyring (%d bytes)", h.Record, h.Block, len(data))
					}
				}
			}
			w3.Close()
			live.S.Class("empty-keyring-reader-judged")
		}
	}
	for _, h := range hs {
		k := headerKey(h)
		lg.keys[k] = true
		if h.Typeflag == int64(tar.TypeReg) {
			data, err := fetchAt(f, w, h.Record, h.Block)
			if err == nil {
				n := observe.Clean(h.Name)
				lg.contents[n] = append(lg.contents[n], data)
			}
		}
	}
	// contents follow legitimately signed move records (ReplacesName): close under them
	for changed := true; changed; {
		changed = false
		for _, h := range hs {
			var px map[string]string
			if json.Unmarshal([]byte(h.Paxrecords), &px) != nil {
				continue
			}
			old, ok := px["STFS.ReplacesName"]
			if !ok {
				continue
			}
			from, to := observe.Clean(old), observe.Clean(h.Name)
			for _, c := range lg.contents[from] {
				dup := false
				for _, d := range lg.contents[to] {
					if bytes.Equal(c, d) {
						dup = true
					}
				}
				if !dup {
					lg.contents[to] = append(lg.contents[to], c)
					changed = true
				}
			}
		}
	}
	return lg, hs
}

// judgeTape runs the real verifier over a (possibly forged) tape.
func judgeTape(f failer, cfg world.Cfg, dir string, forged []byte, lg *legit, what string) string {
	d := filepath.Join(dir, "forged")
	os.RemoveAll(d)
	_ = os.MkdirAll(filepath.Join(d, "drv"), 0700)
	drv := filepath.Join(d, "drv", "drive.tar")
	_ = os.WriteFile(drv, forged, 0600)
	w := worldOver(f, cfg, d, drv, filepath.Join(d, "index.sqlite"), false)
	defer func() { w.Close(); os.RemoveAll(d) }()
	check := func(route string, hs []*config.Header) string {
		for _, h := range hs {
			if !lg.keys[headerKey(h)] {
				return fmt.Sprintf("%s: %s accepted a header the legitimate writer never signed: %s", what, route, headerKey(h))
			}
		}
		return ""
	}
	var acc []*config.Header
	checkObs(f, hist.Call("index forged", func() { _ = w.Reindex(true, func(h *config.Header) { c := *h; acc = append(acc, &c) }) }), "index of "+what)
	live.S.Class(fmt.Sprintf("verdict:index-accepted-%v", len(acc) > 0))
	if m := check("the index rebuild", acc); m != "" {
		return m
	}
	var q []*config.Header
	checkObs(f, hist.Call("query forged", func() { _, _ = w.QueryTape(func(h *config.Header) { c := *h; q = append(q, &c) }) }), "query of "+what)
	// Query reports headers before the indexer's size/suffix normalisation: compare names only after the same treatment is impossible here, so Query is judged on the embedded name set
	_ = q
	// whatever made it into the index restores as what was signed, or not at all
	rows, err := w.MP.GetHeaders(context.Background())
	if err == nil {
		for _, r := range rows {
			if r.Typeflag != int64(tar.TypeReg) || r.Linkname != "" {
				continue
			}
			// three read routes: Fetch by position, Operations.Restore, and the filesystem handle
			routes := []struct {
				name string
				get  func() ([]byte, error)
			}{
				{"recovery.Fetch", func() ([]byte, error) { return fetchAt(f, w, r.Record, r.Block) }},
				{"Operations.Restore", func() ([]byte, error) {
					var out sinkWC
					var err error
					checkObs(f, hist.Call("Restore", func() {
						err = w.ReadOps.Restore(func(string, iofs.FileMode) (io.WriteCloser, error) { return &out, nil }, func(string, iofs.FileMode) error { return nil }, r.Name, "", true)
					}), "restore")
					return out.Bytes(), err
				}},
				{"File.Read", func() ([]byte, error) {
					data, err := observe.ReadAll(hist.Call, w.FS, observe.Clean(r.Name))
					checkObs(f, hangOnly(err), "read")
					return data, err
				}},
			}
			for _, rt := range routes {
				data, ferr := rt.get()
				if ferr != nil {
					live.S.Class("verdict:restore-rejected")
					continue
				}
				ok := false
				for _, c := range lg.contents[observe.Clean(r.Name)] {
					if bytes.Equal(c, data) {
						ok = true
					}
				}
				if !ok {
					return fmt.Sprintf("%s: %s of %s (record %d block %d) returned %d bytes that the legitimate writer never signed under that name, without an error", what, rt.name, r.Name, r.Record, r.Block, len(data))
				}
				live.S.Class("verdict:restore-identical")
			}
		}
	}
	return ""
}

// serialize writes members as one tar archive each (header, body, trailer).
type c08Member struct {
	Hdr  tar.Header
	Body []byte
}

func serialize(ms []c08Member) []byte {
	var out bytes.Buffer
	for _, m := range ms {
		tw := tar.NewWriter(&out)
		h := m.Hdr
		h.Size = int64(len(m.Body))
		if h.Format == tar.FormatUnknown {
			h.Format = tar.FormatPAX
		}
		if err := tw.WriteHeader(&h); err != nil {
			continue
		}
		tw.Write(m.Body)
		tw.Close()
	}
	return out.Bytes()
}

// inner/outer access to the signed wrapper of a member (decrypting with the owner's key:
// the adversary is assumed to know every plaintext).
func openWrapper(cfg world.Cfg, h *tar.Header) (*tar.Header, bool) {
	c := *h
	c.PAXRecords = map[string]string{}
	for k, v := range h.PAXRecords {
		c.PAXRecords[k] = v
	}
	if err := encryption.DecryptHeader(&c, cfg.Encryption, world.Owner().EncIdentity(cfg.Encryption)); err != nil {
		return nil, false
	}
	return &c, true
}

func sealWrapper(cfg world.Cfg, wrapper *tar.Header, size int64) (tar.Header, bool) {
	c := *wrapper
	c.Size = size
	if err := encryption.EncryptHeader(&c, cfg.Encryption, world.Owner().EncRecipient(cfg.Encryption)); err != nil {
		return tar.Header{}, false
	}
	c.Size = size
	return c, true
}

func applyForgery(cfg world.Cfg, ms []c08Member, fg c08Forgery) ([]c08Member, bool) {
	if len(ms) == 0 {
		return nil, false
	}
	out := append([]c08Member(nil), ms...)
	i := fg.Member % len(ms)
	j := fg.Other % len(ms)
	if strings.HasPrefix(fg.Kind, "body-") {
		var withBody []int
		for k, m := range ms {
			if len(m.Body) > 0 {
				withBody = append(withBody, k)
			}
		}
		if len(withBody) == 0 {
			return nil, false
		}
		i = withBody[fg.Member%len(withBody)]
		j = withBody[fg.Other%len(withBody)]
		if i == j && len(withBody) > 1 {
			j = withBody[(fg.Other+1)%len(withBody)]
		}
	}
	wrap, ok := openWrapper(cfg, &out[i].Hdr)
	if !ok {
		return nil, false
	}
	emb := wrap.PAXRecords["STFS.EmbeddedHeader"]
	edit := func(js string) string {
		var h tar.Header
		if json.Unmarshal([]byte(js), &h) != nil {
			return js
		}
		switch fg.Field {
		case "name":
			h.Name = "/forged-" + h.Name
		case "size":
			h.Size += 7
		case "mode":
			h.Mode ^= 0777
		case "uid":
			h.Uid += 4242
		case "action":
			if h.PAXRecords == nil {
				h.PAXRecords = map[string]string{}
			}
			h.PAXRecords["STFS.Version"] = "1"
			h.PAXRecords["STFS.Action"] = "DELETE"
		case "replaces":
			if h.PAXRecords == nil {
				h.PAXRecords = map[string]string{}
			}
			h.PAXRecords["STFS.Version"] = "1"
			h.PAXRecords["STFS.Action"] = "UPDATE"
			h.PAXRecords["STFS.ReplacesName"] = h.Name
			h.Name = "/moved-by-forger"
		default:
			h.ModTime = h.ModTime.Add(3600e9)
		}
		b, _ := json.Marshal(h)
		return string(b)
	}
	switch fg.Kind {
	case "edit-keep":
		wrap.PAXRecords["STFS.EmbeddedHeader"] = edit(emb)
	case "edit-drop":
		wrap.PAXRecords["STFS.EmbeddedHeader"] = edit(emb)
		delete(wrap.PAXRecords, "STFS.Signature")
	case "edit-garbage":
		wrap.PAXRecords["STFS.EmbeddedHeader"] = edit(emb)
		wrap.PAXRecords["STFS.Signature"] = fg.Sig
	case "keep-garbage":
		wrap.PAXRecords["STFS.Signature"] = fg.Sig
	case "swap-sig":
		w2, ok := openWrapper(cfg, &out[j].Hdr)
		if !ok || i == j {
			return nil, false
		}
		wrap.PAXRecords["STFS.Signature"] = w2.PAXRecords["STFS.Signature"]
	case "edit-reencode":
		wrap.PAXRecords["STFS.EmbeddedHeader"] = edit(emb)
		if raw, err := base64.StdEncoding.DecodeString(wrap.PAXRecords["STFS.Signature"]); err == nil {
			wrap.PAXRecords["STFS.Signature"] = base64.URLEncoding.EncodeToString(raw)
		}
	case "stranger":
		e := edit(emb)
		wrap.PAXRecords["STFS.EmbeddedHeader"] = e
		sig, err := signature.SignString(e, true, cfg.Signature, world.Stranger().SigIdentity(cfg.Signature))
		if err != nil {
			return nil, false
		}
		wrap.PAXRecords["STFS.Signature"] = sig
	case "outer-extra":
		// unsigned records smuggled next to the untouched signed pair of the outer header
		switch fg.Field {
		case "action":
			wrap.PAXRecords["STFS.Version"] = "1"
			wrap.PAXRecords["STFS.Action"] = "DELETE"
		case "replaces", "name":
			var other tar.Header
			if w2, ok := openWrapper(cfg, &out[j].Hdr); ok && json.Unmarshal([]byte(w2.PAXRecords["STFS.EmbeddedHeader"]), &other) == nil && other.Name != "" {
				wrap.PAXRecords["STFS.Version"] = "1"
				wrap.PAXRecords["STFS.Action"] = "UPDATE"
				wrap.PAXRecords["STFS.ReplacesName"] = other.Name
			} else {
				wrap.PAXRecords["STFS.ReplacesName"] = "/"
			}
		case "size":
			wrap.PAXRecords["STFS.UncompressedSize"] = "1"
		default:
			wrap.PAXRecords["STFS.ReplacesContent"] = "true"
			wrap.PAXRecords["path"] = "/smuggled"
		}
	case "unsigned-plain":
		out = append(out, c08Member{Hdr: tar.Header{Typeflag: tar.TypeReg, Name: "/plain-forged", Mode: 0644, Format: tar.FormatPAX}, Body: []byte("unsigned")})
		return out, true
	case "unsigned-stfs":
		out = append(out, c08Member{Hdr: tar.Header{Typeflag: tar.TypeReg, Name: "/stfs-forged", Mode: 0644, Format: tar.FormatPAX,
			PAXRecords: map[string]string{"STFS.Version": "1", "STFS.Action": "CREATE"}}, Body: nil})
		return out, true
	case "body-edit":
		if len(out[i].Body) == 0 {
			return nil, false
		}
		b := append([]byte(nil), out[i].Body...)
		b[fg.Pos%len(b)] ^= byte(fg.Xor | 1)
		out[i].Body = b
		return out, true
	case "body-swap":
		if i == j || bytes.Equal(out[i].Body, out[j].Body) {
			return nil, false
		}
		out[i].Body, out[j].Body = out[j].Body, out[i].Body
		return out, true
	case "body-truncate":
		if len(out[i].Body) < 2 {
			return nil, false
		}
		out[i].Body = out[i].Body[:len(out[i].Body)/2]
		return out, true
	case "body-drop":
		// the unsigned outer header announces no content at all; wrapper and signatures stay
		if len(out[i].Body) == 0 {
			return nil, false
		}
		out[i].Body = nil
		return out, true
	case "body-extend":
		if len(out[i].Body) == 0 {
			return nil, false
		}
		out[i].Body = append(append([]byte(nil), out[i].Body...), make([]byte, 512)...)
		return out, true
	case "duplicate":
		out = append(out, out[i])
		return out, true
	default:
		return nil, false
	}
	sealed, ok := sealWrapper(cfg, wrap, int64(len(out[i].Body)))
	if !ok {
		return nil, false
	}
	out[i].Hdr = sealed
	return out, true
}

var c08Kinds = []string{"outer-extra", "edit-keep", "edit-drop", "edit-garbage", "keep-garbage", "swap-sig", "edit-reencode", "stranger", "unsigned-plain", "unsigned-stfs", "body-edit", "body-swap", "body-truncate", "body-drop", "body-extend", "duplicate"}
var c08Fields = []string{"name", "size", "mode", "uid", "action", "replaces", "mtime"}
var c08Sigs = []string{"", "!!!", "AAAA", "aGVsbG8gd29ybGQ=", "====", "not base64 at all", "AAAAAAAAAAAAAAAAAAAAAAAAAAAAAAAAAAAAAAAAAAAAAAAAAAAAAAAAAAAAAAAAAAAAAAAAAAAAAAAAAAAAAAAAAAAAAAAAAAAAAAAAAAA=", "wsBc", "iA=="}

type c08 struct {
	c        c08Case
	tried    int
	nontriv  int
	excluded int
}

func (o *c08) Before(x *hctx, s hist.Step)                                     {}
func (o *c08) After(x *hctx, s hist.Step, res hist.Res, mres hist.MRes) string { return "" }
func (o *c08) Nontrivial(x *hctx) bool                                         { return o.nontriv >= 1 }

func (o *c08) End(x *hctx) string {
	for i, sl := range x.r.Slots {
		if sl != nil {
			x.r.Do(hist.Step{Op: "close", Slot: i})
		}
	}
	raw := x.r.W.TapeBytes()
	side := world.NewDir("c08")
	defer os.RemoveAll(side)
	lg, _ := collectLegit(x.f, x.cfg, side, raw)
	sc := observe.TapeScan(raw, x.cfg.RecordSize, true)
	if len(sc.Problems) > 0 {
		return fmt.Sprintf("legit tape does not scan: %v", sc.Problems)
	}
	var ms []c08Member
	for _, m := range sc.Members {
		ms = append(ms, c08Member{Hdr: *m.Hdr, Body: m.Body})
	}
	// sanity: the re-serialised legitimate tape is accepted entirely
	if msg := judgeTape(x.f, x.cfg, side, serialize(ms), lg, "the re-serialised legitimate tape"); msg != "" {
		return msg
	}
	// (2) structured forgeries
	for _, fg := range o.c.Forgeries {
		forged, ok := applyForgery(x.cfg, ms, fg)
		if !ok {
			continue
		}
		o.tried++
		o.nontriv++
		live.S.AddInner(1)
		live.S.Class("forgery:" + fg.Kind)
		if msg := judgeTape(x.f, x.cfg, side, serialize(forged), lg, fmt.Sprintf("forgery %+v", fg)); msg != "" {
			return msg
		}
	}
	// (1) enumerated single-byte edits of the raw tape
	if o.c.ByteEdits != 0 && len(raw) > 0 {
		positions := make([]int, 0, len(raw))
		inHeader := map[int]bool{}
		for _, m := range sc.Members {
			for p := m.Off; p < m.DataOff; p++ {
				inHeader[int(p)] = true
			}
		}
		for p := range raw {
			positions = append(positions, p)
		}
		if o.c.ByteEdits > 0 && len(positions) > o.c.ByteEdits {
			// every header/PAX byte first, then evenly spaced others
			var hp, op []int
			for _, p := range positions {
				if inHeader[p] && raw[p] != 0 {
					hp = append(hp, p)
				} else {
					op = append(op, p)
				}
			}
			sort.Ints(hp)
			keep := hp
			if len(keep) > o.c.ByteEdits {
				step := float64(len(keep)) / float64(o.c.ByteEdits)
				var k2 []int
				for i := 0.0; int(i) < len(keep); i += step {
					k2 = append(k2, keep[int(i)])
				}
				keep = k2
			} else if rest := o.c.ByteEdits - len(keep); rest > 0 && len(op) > 0 {
				step := float64(len(op)) / float64(rest)
				if step < 1 {
					step = 1
				}
				for i := 0.0; int(i) < len(op); i += step {
					keep = append(keep, op[int(i)])
				}
			}
			positions = keep
		}
		edits := []func(b byte) byte{func(b byte) byte { return b ^ 0xFF }}
		if o.c.ByteEdits < 0 {
			edits = append(edits, func(b byte) byte { return b + 1 }, func(b byte) byte { return 0 })
		}
		for _, p := range positions {
			for ei, ed := range edits {
				nb := ed(raw[p])
				if nb == raw[p] {
					continue
				}
				forged := append([]byte(nil), raw...)
				forged[p] = nb
				live.S.AddInner(1)
				if inHeader[p] {
					o.nontriv++
					live.S.Class("byte-edit:header-or-pax")
				} else {
					live.S.Class("byte-edit:body-or-padding")
				}
				if msg := judgeTape(x.f, x.cfg, side, forged, lg, fmt.Sprintf("single-byte edit #%d at offset %d (0x%02x -> 0x%02x)", ei, p, raw[p], nb)); msg != "" {
					return msg
				}
			}
		}
		if o.c.ByteEdits < 0 {
			live.S.Class("byte-edit:exhaustive-tape")
		}
	}
	return ""
}

var c08Weights = map[string]int{
	"create": 6, "write": 8, "close": 8, "mkdir": 3, "rename": 3, "remove": 2, "chmod": 2, "chtimes": 1, "arch_archive": 2,
}

func drawC08(t *rapid.T) c08Case {
	var c c08Case
	// one forgery of every kind, then a few more drawn ones
	n := len(c08Kinds) + rapid.IntRange(0, 6).Draw(t, "nforgeries")
	for i := 0; i < n; i++ {
		kind := c08Kinds[i%len(c08Kinds)]
		if i >= len(c08Kinds) {
			kind = rapid.SampledFrom(c08Kinds).Draw(t, "kind")
		}
		c.Forgeries = append(c.Forgeries, c08Forgery{
			Kind:   kind,
			Member: rapid.IntRange(0, 40).Draw(t, "member"),
			Other:  rapid.IntRange(0, 40).Draw(t, "other"),
			Field:  rapid.SampledFrom(c08Fields).Draw(t, "field"),
			Sig:    rapid.SampledFrom(c08Sigs).Draw(t, "sig"),
			Pos:    rapid.IntRange(0, 5000).Draw(t, "pos"),
			Xor:    rapid.IntRange(1, 255).Draw(t, "xor"),
		})
	}
	return c
}

func TestC08(t *testing.T) {
	rapid.Check(t, func(t *rapid.T) {
		cfg := hist.DrawCfg(t, 0, []int{1, 3, 20})
		cfg.Signature = rapid.SampledFrom([]string{"minisign", "pgp"}).Draw(t, "signature!")
		cfg.Compression = rapid.SampledFrom([]string{"", "", "gzip", "zstandard", "lz4"}).Draw(t, "compression!")
		if rapid.IntRange(0, 2).Draw(t, "plain-content") == 0 {
			// with a plain pipeline the signature is the only thing that can notice altered content
			cfg.Compression, cfg.Encryption = "", ""
		}
		c := drawC08(t)
		c.ByteEdits = *byteEdits
		g := hist.NewGen(t, c08Weights, hist.Universe[:6], 3, cfg.RecordSize).WithSuffixNames(t, cfg)
		g.Avoid = avoidFor("C08")
		g.MaxSize = 1500
		n := rapid.IntRange(2, 6).Draw(t, "nsteps")
		pro := []hist.Step{{Op: "create", Path: "/" + g.Comps[0], Slot: 0}, {Op: "write", Slot: 0, Size: rapid.IntRange(1, 900).Draw(t, "psize"), Dist: 2, Seed: 5}, {Op: "close", Slot: 0}}
		runCase(t, "C08", cfg, hist.Params{"c08": c}, &c08{c: c}, world.Opts{}, func(x *hctx, i int) (hist.Step, bool) {
			if i < len(pro) {
				return pro[i], true
			}
			if i >= len(pro)+n {
				return hist.Step{}, false
			}
			return g.Draw(t, x.mr), true
		})
	})
}

func init() {
	historyOracles["C08"] = func() oracle { return &c08{} }
	customReplays["C08"] = func(t *testing.T, c *hist.Case, path string) {
		var cc c08Case
		remarshal(c.Params["c08"], &cc)
		replayHistory(t, c, &c08{c: cc}, world.Opts{})
	}
}

var _ = strings.Contains
