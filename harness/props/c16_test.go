package props

import (
	"bytes"
	"fmt"
	"os"
	"path/filepath"
	"sort"
	"strings"
	"testing"

	"pgregory.net/rapid"
	"verif/harness/hist"
	"verif/harness/live"
	"verif/harness/observe"
	"verif/harness/world"
)

// C16 — opening a filesystem over an existing tape is non-destructive and faithful.

type c16 struct {
	probe      *world.Probe
	prevLen    int64
	boundaries map[int64]bool
	points     int
	nontriv    int
}

func (o *c16) Before(x *hctx, s hist.Step) {
	st, err := os.Stat(x.r.W.Drive)
	o.prevLen = 0
	if err == nil {
		o.prevLen = st.Size()
	}
	o.probe.Reset()
}

func (o *c16) After(x *hctx, s hist.Step, res hist.Res, mres hist.MRes) string {
	if res.Skipped || !hist.Mutating(s.Op) {
		return ""
	}
	if o.boundaries == nil {
		o.boundaries = map[int64]bool{}
	}
	_, writes, _ := o.probe.Snapshot()
	off := o.prevLen
	for _, n := range writes {
		off += int64(n)
		o.boundaries[off] = true
	}
	return ""
}

// cutClass names where a cut fell (used for labels and for the guards of F-16a/b).
func cutClass(sc *observe.Scan, total, ell int64) string {
	if ell == total {
		return "intact"
	}
	for _, a := range sc.Archives {
		if ell == a.End {
			return "archive-boundary"
		}
	}
	if ell%512 != 0 {
		return "unaligned"
	}
	for _, m := range sc.Members {
		if ell > m.Off && ell < m.End {
			return "inside-record"
		}
		if ell == m.End {
			return "record-boundary"
		}
	}
	return "inside-trailer"
}

func (o *c16) End(x *hctx) string {
	for i, sl := range x.r.Slots {
		if sl != nil {
			o.Before(x, hist.Step{})
			res := x.r.Do(hist.Step{Op: "close", Slot: i})
			if res.Hang != nil {
				failf(x.f, "%s", res.Hang.Detail)
			}
			o.After(x, hist.Step{Op: "close", Slot: i}, res, hist.MRes{})
		}
	}
	raw := x.r.W.TapeBytes()
	total := int64(len(raw))
	sc := observe.TapeScan(raw, x.cfg.RecordSize, false)
	if len(sc.Problems) > 0 {
		return fmt.Sprintf("the intact tape does not scan: %v", sc.Problems)
	}
	cutset := map[int64]bool{total: true}
	for _, a := range sc.Archives {
		cutset[a.End] = true
	}
	for b := range o.boundaries {
		cutset[b] = true
		cutset[b-1] = true
		cutset[b+1] = true
	}
	for _, m := range sc.Members {
		cutset[m.DataOff] = true
		cutset[m.End] = true
		cutset[(m.DataOff+m.End)/2/512*512] = true
		cutset[m.Off+1] = true
		cutset[(m.DataOff+m.End)/2+1] = true
	}
	var cuts []int64
	for c := range cutset {
		if c > 0 && c <= total {
			cuts = append(cuts, c)
		}
	}
	sort.Slice(cuts, func(i, j int) bool { return cuts[i] < cuts[j] })
	if len(cuts) > *maxCuts {
		step := float64(len(cuts)) / float64(*maxCuts)
		var keep []int64
		for i := 0.0; int(i) < len(cuts); i += step {
			keep = append(keep, cuts[int(i)])
		}
		if keep[len(keep)-1] != total {
			keep = append(keep, total)
		}
		cuts = keep
	}
	side := world.NewDir("c16")
	defer os.RemoveAll(side)
	n := 0
	onlyClass, _ := x.params["only_class"].(string)
	onlyState, _ := x.params["only_state"].(string)
	for _, ell := range cuts {
		class := cutClass(sc, total, ell)
		if onlyClass != "" && class != onlyClass {
			continue
		}
		// while F-16a/F-16b are open, nothing is written after opening a tape with a torn tail
		skipFollowUp := false
		if guard("F-16a") && (class == "inside-record" || class == "record-boundary" || class == "inside-trailer") {
			live.S.Exclude("F-16a")
			skipFollowUp = true
		}
		if guard("F-16b") && class == "unaligned" {
			live.S.Exclude("F-16b")
			skipFollowUp = true
		}
		cutScan := observe.TapeScan(raw[:ell], x.cfg.RecordSize, false)
		// reference: what a from-scratch rebuild of this tape shows
		ref, _ := rebuildCut(x.f, x.cfg, side, raw, ell, "ref")
		// stale indexes: rebuilds of earlier archive boundaries
		var staleEnds []int64
		for _, a := range cutScan.Archives {
			if a.End < ell {
				staleEnds = append(staleEnds, a.End)
			}
		}
		states := []string{"absent", "current"}
		if len(staleEnds) > 0 {
			if guard("F-16c") {
				live.S.Exclude("F-16c")
			} else {
				states = append(states, "stale")
			}
		}
		for _, state := range states {
			if onlyState != "" && state != onlyState {
				continue
			}
			n++
			d := filepath.Join(side, fmt.Sprintf("p%d", n))
			_ = os.MkdirAll(filepath.Join(d, "drv"), 0700)
			drv, db := filepath.Join(d, "drv", "drive.tar"), filepath.Join(d, "index.sqlite")
			_ = os.WriteFile(drv, raw[:ell], 0600)
			what := fmt.Sprintf("tape of %d bytes cut at %d (%s), index %s", total, ell, class, state)
			switch state {
			case "current":
				if ell == total {
					_ = world.CopyFile(db, x.r.W.DB)
				} else {
					w := worldOver(x.f, x.cfg, d, drv, db, false)
					checkObs(x.f, hist.Call("prepare current index", func() { _ = w.Reindex(true, nil) }), "prepare")
					w.Close()
				}
			case "stale":
				k := staleEnds[len(staleEnds)/2]
				what += fmt.Sprintf(" (reflecting the first %d bytes)", k)
				sd := filepath.Join(d, "stale", "drive.tar")
				_ = os.MkdirAll(filepath.Dir(sd), 0700)
				_ = os.WriteFile(sd, raw[:k], 0600)
				w := worldOver(x.f, x.cfg, filepath.Join(d, "stale"), sd, db, false)
				checkObs(x.f, hist.Call("prepare stale index", func() { _ = w.Reindex(true, nil) }), "prepare")
				w.Close()
			}
			o.points++
			live.S.AddInner(1)
			live.S.Class("open:" + class + "/" + state)
			if (class != "intact" && class != "archive-boundary") || state == "stale" {
				if len(cutScan.Members) >= 2 {
					o.nontriv++
				}
			}
			// ---- the call under test: construct + Initialize ----
			var w *world.World
			var err error
			checkObs(x.f, hist.Call("Initialize over "+what, func() { w, err = world.New(x.cfg, world.Opts{Dir: d, Drive: drv, DB: db}) }), "Initialize over "+what)
			if err != nil {
				return fmt.Sprintf("%s: cannot construct: %v", what, err)
			}
			after, _ := os.ReadFile(drv)
			if int64(len(after)) < ell || !bytes.Equal(after[:ell], raw[:ell]) {
				w.Close()
				return fmt.Sprintf("%s: opening removed or rewrote tape content (%d bytes afterwards)", what, len(after))
			}
			if len(cutScan.Members) >= 1 && int64(len(after)) != ell {
				w.Close()
				return fmt.Sprintf("%s: a root already exists on the tape, but opening appended %d bytes (Initialize err=%v)", what, int64(len(after))-ell, w.InitErr)
			}
			if w.InitErr == nil {
				got, e := observe.Snapshot(hist.Call, w.FS, true)
				checkObs(x.f, e, "snapshot after opening "+what)
				if d := observe.Diff("from-scratch-rebuild", ref, "opened-instance", got, true); d != "" {
					w.Close()
					return fmt.Sprintf("%s: Initialize succeeded but the filesystem is not what a rebuild of that tape shows:\n%s", what, d)
				}
				// entries written afterwards are retrievable and survive a rebuild
				if nf, _ := x.params["no_followup"].(bool); nf || skipFollowUp {
					w.Close()
					os.RemoveAll(d)
					continue
				}
				r := &hist.Runner{Cfg: x.cfg, Dir: d, W: w, Opts: w.Opts}
				content := hist.Bytes(700, 3, uint64(n))
				name := fmt.Sprintf("/zz-new-%d", n)
				wrote := true
				follow := []hist.Step{{Op: "create", Path: name + "-tmp", Slot: 0}, {Op: "write", Slot: 0, Size: 700, Dist: 3, Seed: uint64(n)}, {Op: "close", Slot: 0},
					{Op: "rename", Path: name + "-tmp", Path2: name}, {Op: "mkdir", Path: name + "-d0", Perm: 0755}, {Op: "rename", Path: name + "-d0", Path2: name + "-dir"}}
				for _, st := range follow {
					res := r.Do(st)
					if res.Hang != nil {
						failf(x.f, "%s: follow-up %s: %s", what, st, res.Hang.Detail)
					}
					if res.Err != nil {
						wrote = false
						live.S.Class("followup-rejected")
						break
					}
				}
				// ... and calls on what was there before behave as ever: a populated directory of the
				// tape is renamed as a whole
				mvFrom, mvTo := "", fmt.Sprintf("/zz-moved-%d", n)
				if wrote {
					if mvFrom = c16PopulatedDir(ref, n); mvFrom != "" {
						res := r.Do(hist.Step{Op: "rename", Path: mvFrom, Path2: mvTo})
						if res.Hang != nil {
							failf(x.f, "%s: follow-up rename of %s: %s", what, mvFrom, res.Hang.Detail)
						}
						if res.Err != nil {
							w.Close()
							return fmt.Sprintf("%s: Rename(%q, %q) of a directory that was on the tape failed after opening: %v", what, mvFrom, mvTo, res.Err)
						}
						live.S.Class("followup-renamed-populated-directory")
					}
				}
				remap := func(p string) string {
					if mvFrom != "" && (p == mvFrom || strings.HasPrefix(p, mvFrom+"/")) {
						return mvTo + p[len(mvFrom):]
					}
					return p
				}
				if wrote {
					data, err := observe.ReadAll(hist.Call, w.FS, name)
					checkObs(x.f, hangOnly(err), "read back")
					if err != nil || !bytes.Equal(data, content) {
						w.Close()
						return fmt.Sprintf("%s: a file written after opening does not read back (err=%v, %d of %d bytes)", what, err, len(data), len(content))
					}
					now, _ := os.ReadFile(drv)
					rb, _ := rebuildCut(x.f, x.cfg, side, now, int64(len(now)), "after")
					if e, ok := rb.Get(name); !ok || e.ReadErr != "" || e.Len != int64(len(content)) {
						w.Close()
						return fmt.Sprintf("%s: a file written after opening does not survive an index rebuild (present=%v %+v)", what, ok, e)
					}
					if _, ok := rb.Get(name + "-dir"); !ok {
						w.Close()
						return fmt.Sprintf("%s: a directory created after opening does not survive an index rebuild", what)
					}
					for _, e := range ref.Entries {
						if e.ReadErr != "" {
							continue // the entry of a torn record never had complete content
						}
						if g, ok := rb.Get(remap(e.Path)); !ok || g.SHA != e.SHA || g.Kind != e.Kind {
							w.Close()
							return fmt.Sprintf("%s: after writing through the opened instance a rebuild no longer shows %s as before (expected at %s)", what, e.Path, remap(e.Path))
						}
						if mvFrom != "" && remap(e.Path) != e.Path {
							if _, ok := rb.Get(e.Path); ok {
								w.Close()
								return fmt.Sprintf("%s: %s is still there after its directory %s was renamed to %s", what, e.Path, mvFrom, mvTo)
							}
						}
					}
				}
			} else {
				live.S.Class("initialize-error")
			}
			w.Close()
			os.RemoveAll(d)
		}
	}
	// one damaged tape per case: a later record that no reader accepts (an unsupported
	// STFS.Version, or one flipped byte in its PAX data). Opening it without an index must
	// leave it as it is, and may only show what a from-scratch rebuild of it shows.
	if dmg, what, ok := c16Damage(raw, x.cfg.RecordSize); ok && onlyState == "" {
		n++
		d := filepath.Join(side, fmt.Sprintf("p%d", n))
		_ = os.MkdirAll(filepath.Join(d, "drv"), 0700)
		drv, db := filepath.Join(d, "drv", "drive.tar"), filepath.Join(d, "index.sqlite")
		_ = os.WriteFile(drv, dmg, 0600)
		ref, _ := rebuildCut(x.f, x.cfg, side, dmg, int64(len(dmg)), "ref-damaged")
		var w *world.World
		var err error
		checkObs(x.f, hist.Call("Initialize over a damaged tape", func() { w, err = world.New(x.cfg, world.Opts{Dir: d, Drive: drv, DB: db}) }), "Initialize over a tape with "+what)
		if err != nil {
			return fmt.Sprintf("tape with %s: cannot construct: %v", what, err)
		}
		after, _ := os.ReadFile(drv)
		if !bytes.Equal(after, dmg) {
			w.Close()
			return fmt.Sprintf("tape of %d bytes with %s, index absent: opening changed the tape (%d bytes afterwards, Initialize err=%v)", len(dmg), what, len(after), w.InitErr)
		}
		if w.InitErr == nil {
			got, e := observe.Snapshot(hist.Call, w.FS, true)
			checkObs(x.f, e, "snapshot after opening a damaged tape")
			if dd := observe.Diff("from-scratch-rebuild", ref, "opened-instance", got, true); dd != "" {
				w.Close()
				return fmt.Sprintf("tape with %s: Initialize succeeded but the filesystem is not what a rebuild of that tape shows:\n%s", what, dd)
			}
		}
		w.Close()
		os.RemoveAll(d)
		o.points++
		live.S.AddInner(1)
		live.S.Class("open:damaged-record/absent")
	}
	return ""
}

// c16Damage makes one record behind the first unacceptable: STFS.Version=1 becomes 2 where it
// is readable, otherwise one byte of the record's PAX data is flipped.
func c16Damage(raw []byte, rs int) ([]byte, string, bool) {
	sc := observe.TapeScan(raw, rs, false)
	if len(sc.Members) < 3 {
		return nil, "", false
	}
	m := sc.Members[len(sc.Members)/2]
	lo, hi := m.Off+512, m.DataOff-512
	if hi <= lo || hi > int64(len(raw)) {
		return nil, "", false
	}
	out := append([]byte(nil), raw...)
	if i := bytes.Index(out[lo:hi], []byte("STFS.Version=1")); i >= 0 {
		out[lo+int64(i)+int64(len("STFS.Version="))] = '2'
		return out, "a record of an unsupported STFS.Version", true
	}
	out[lo+(hi-lo)/2] ^= 0x01
	return out, "one flipped bit in the PAX data of a record", true
}

// c16PopulatedDir picks a directory of the reference tree that has entries below it and
// whose subtree is free of symbolic links and unreadable (torn) entries ("" if there is none;
// trees with links anywhere are left alone: findings F-32/F-35).
func c16PopulatedDir(ref *observe.Snap, n int) string {
	var c []string
	for _, e := range ref.Entries {
		if e.Kind == "link" {
			return ""
		}
	}
	for _, d := range ref.Entries {
		if d.Kind != "dir" || d.Path == "/" {
			continue
		}
		kids, ok := 0, true
		for _, e := range ref.Entries {
			if strings.HasPrefix(e.Path, d.Path+"/") {
				kids++
				if e.ReadErr != "" {
					ok = false
				}
			}
		}
		if kids > 0 && ok {
			c = append(c, d.Path)
		}
	}
	if len(c) == 0 {
		return ""
	}
	sort.Strings(c)
	return c[n%len(c)]
}

func (o *c16) Nontrivial(x *hctx) bool { return o.points >= 3 && (o.nontriv >= 1 || o.points >= 6) }

func init() {
	historyOracles["C16"] = func() oracle { busyIsViolation = true; return &c16{probe: sharedProbe} }
}

func TestC16(t *testing.T) {
	busyIsViolation = true
	rapid.Check(t, func(t *rapid.T) {
		cfg := hist.DrawCfg(t, 40, []int{1, 2, 3, 7, 20})
		g := hist.NewGen(t, c06Weights, hist.Universe[:13], 3, cfg.RecordSize).WithSuffixNames(t, cfg)
		g.Avoid = avoidFor("C16")
		g.MaxSize = 6000
		n := rapid.IntRange(2, *maxSteps).Draw(t, "nsteps")
		sharedProbe.Reset()
		runCase(t, "C16", cfg, nil, &c16{probe: sharedProbe}, world.Opts{Probe: sharedProbe}, func(x *hctx, i int) (hist.Step, bool) {
			if i >= n {
				return hist.Step{}, false
			}
			return g.Draw(t, x.mr), true
		})
	})
}
