package props

import (
	"verif/harness/hist"
	"verif/harness/observe"
)

// livenessOnly is the replay oracle of liveness findings: every call of the history and
// a full read of every file afterwards must return (the watchdog decides); nothing else
// is judged.
type livenessOnly struct{}

func (livenessOnly) Before(x *hctx, s hist.Step) {}
func (livenessOnly) After(x *hctx, s hist.Step, res hist.Res, mres hist.MRes) string {
	if !hist.Mutating(s.Op) {
		return ""
	}
	_, e := observe.Snapshot(hist.Call, x.r.W.FS, true)
	checkObs(x.f, e, "reading every file after the call")
	return ""
}
func (livenessOnly) End(x *hctx) string      { return "" }
func (livenessOnly) Nontrivial(x *hctx) bool { return true }

func init() {
	historyOracles["LIVE"] = func() oracle { return livenessOnly{} }
}
