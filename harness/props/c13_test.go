package props

import (
	"fmt"
	"os"
	"path"
	"sort"
	"strings"
	"testing"

	"github.com/spf13/afero"
	"pgregory.net/rapid"
	"verif/harness/hist"
	"verif/harness/live"
	"verif/harness/observe"
)

// C13 — the namespace is a well-formed tree and listings agree with lookups.
type c13 struct {
	multi bool
	deep  bool
	prev  map[string]bool
}

func (o *c13) Before(x *hctx, s hist.Step) {}

func (o *c13) After(x *hctx, s hist.Step, res hist.Res, mres hist.MRes) string {
	if res.Skipped || !hist.Mutating(s.Op) {
		return ""
	}
	fsys := x.r.W.FS
	snap, e := observe.Snapshot(hist.Call, fsys, false)
	checkObs(x.f, e, "walk")
	if len(snap.Errs) > 0 {
		return "walking the tree from the root: " + strings.Join(snap.Errs, "; ")
	}
	walked := map[string]observe.Entry{}
	for _, en := range snap.Entries {
		walked[en.Path] = en
	}
	// a successful remove takes exactly the named entry (and what is below it) out of the tree
	if res.Err == nil && (s.Op == "remove" || s.Op == "removeall") && o.prev != nil {
		gone := hist_clean(s.Path)
		if _, still := walked[gone]; still {
			return fmt.Sprintf("%s(%q) succeeded but the entry is still listed", s.Op, s.Path)
		}
		for p := range o.prev {
			if p == gone || strings.HasPrefix(p, gone+"/") {
				continue
			}
			if _, ok := walked[p]; !ok {
				return fmt.Sprintf("%s(%q) also made %s disappear from the tree", s.Op, s.Path, p)
			}
		}
	}
	o.prev = map[string]bool{}
	for p := range walked {
		o.prev[p] = true
	}
	// live entries according to the index (through the public persister API)
	hdrs, err := x.r.W.Headers()
	if err != nil {
		return "GetHeaders: " + err.Error()
	}
	liveSet := map[string]bool{}
	for _, h := range hdrs {
		p := observe.Clean(h.Name)
		if h.Linkname != "" {
			p = observe.Clean(h.Linkname)
		}
		liveSet[p] = true
		if _, ok := walked[p]; !ok {
			return fmt.Sprintf("live entry %s is not reachable by listing directories from the root", p)
		}
	}
	for p := range walked {
		if !liveSet[p] {
			return fmt.Sprintf("walking the tree reaches %s which is not a live entry", p)
		}
		if p != "/" {
			par, ok := walked[path.Dir(p)]
			if !ok || par.Kind != "dir" {
				return fmt.Sprintf("entry %s has no parent directory (parent %s: present=%v kind=%s)", p, path.Dir(p), ok, par.Kind)
			}
		}
	}
	// listings with every count limit
	children := map[string][]string{}
	for p := range walked {
		if p != "/" {
			children[path.Dir(p)] = append(children[path.Dir(p)], path.Base(p))
		}
	}
	for d, en := range walked {
		if en.Kind != "dir" || en.Link != "" {
			continue
		}
		kids := children[d]
		sort.Strings(kids)
		if len(kids) >= 2 {
			o.multi = true
		}
		if strings.Count(d, "/") >= 2 {
			o.deep = true
		}
		kidset := map[string]bool{}
		for _, k := range kids {
			kidset[k] = true
		}
		for n := -1; n <= len(kids)+2; n++ {
			for _, mode := range []string{"Readdir", "Readdirnames"} {
				var h afero.File
				var err error
				checkObs(x.f, hist.Call("Open", func() { h, err = fsys.Open(d) }), "open")
				if err != nil {
					return fmt.Sprintf("directory %s cannot be opened: %v", d, err)
				}
				var names []string
				var infos []os.FileInfo
				checkObs(x.f, hist.Call(mode, func() {
					if mode == "Readdir" {
						infos, err = h.Readdir(n)
						for _, fi := range infos {
							names = append(names, fi.Name())
						}
					} else {
						names, err = h.Readdirnames(n)
					}
				}), mode)
				checkObs(x.f, hist.Call("Close", func() { _ = h.Close() }), "close")
				live.S.AddInner(1)
				if err != nil {
					return fmt.Sprintf("%s(%d) on %s: %v", mode, n, d, err)
				}
				want := len(kids)
				if n > 0 && n < want {
					want = n
				}
				if len(names) != want {
					return fmt.Sprintf("%s(%d) on %s (which has %d children %q) returned %d entries %q", mode, n, d, len(kids), kids, len(names), names)
				}
				dup := map[string]bool{}
				for _, nm := range names {
					if !kidset[nm] {
						return fmt.Sprintf("%s(%d) on %s returned %q which is not one of its children %q", mode, n, d, nm, kids)
					}
					if dup[nm] {
						return fmt.Sprintf("%s(%d) on %s returned %q twice", mode, n, d, nm)
					}
					dup[nm] = true
				}
				for _, fi := range infos {
					c := walked[observe.Clean(path.Join(d, fi.Name()))]
					kind := "file"
					if fi.IsDir() {
						kind = "dir"
					}
					if c.Link == "" && (kind != c.Kind || fi.Size() != c.Size) {
						return fmt.Sprintf("%s(%d) on %s lists %q as %s/%d bytes, Stat says %s/%d", mode, n, d, fi.Name(), kind, fi.Size(), c.Kind, c.Size)
					}
				}
			}
		}
	}
	// every entry can be opened with matching kind and size
	for p, en := range walked {
		if en.Link != "" {
			continue // a link may dangle: opening follows it
		}
		var h afero.File
		var err error
		checkObs(x.f, hist.Call("Open", func() { h, err = fsys.Open(p) }), "open")
		if err != nil {
			return fmt.Sprintf("listed entry %s cannot be opened: %v", p, err)
		}
		var fi os.FileInfo
		checkObs(x.f, hist.Call("File.Stat", func() { fi, err = h.Stat() }), "fstat")
		checkObs(x.f, hist.Call("Close", func() { _ = h.Close() }), "close")
		if err != nil {
			return fmt.Sprintf("handle Stat of %s: %v", p, err)
		}
		kind := "file"
		if fi.IsDir() {
			kind = "dir"
		}
		if en.Link == "" && (kind != en.Kind || fi.Size() != en.Size) {
			return fmt.Sprintf("opened %s is %s/%d bytes, Stat by name says %s/%d", p, kind, fi.Size(), en.Kind, en.Size)
		}
	}
	return ""
}

func (o *c13) End(x *hctx) string      { return "" }
func (o *c13) Nontrivial(x *hctx) bool { return o.multi && o.deep }

func init() { historyOracles["C13"] = func() oracle { return &c13{} } }

var c13Weights = map[string]int{
	"create": 8, "openfile": 3, "write": 3, "close": 6,
	"mkdir": 8, "mkdirall": 8, "remove": 3, "removeall": 3, "rename": 5,
	"chmod": 1, "symlink": 1, "reopen": 1, "rebuild": 1, "arch_archive": 2,
}

func TestC13(t *testing.T) {
	rapid.Check(t, func(t *rapid.T) {
		cfg := hist.DrawCfg(t, 80, nil)
		rapidHistory(t, "C13", cfg, c13Weights, hist.Universe, &c13{}, avoidFor("C13"))
	})
}
