package props

import "verif/harness/world"

func worldOpts() world.Opts { return world.Opts{} }
