package props

import (
	"bytes"
	"fmt"
	"io"
	"os"
	"path"
	"runtime"
	"sort"
	"strings"
	"sync"
	"sync/atomic"
	"testing"
	"time"

	"github.com/anishathalye/porcupine"
	"github.com/spf13/afero"
	"pgregory.net/rapid"
	"verif/harness/hist"
	"verif/harness/live"
	"verif/harness/model"
	"verif/harness/observe"
	"verif/harness/world"
)

// C11 — concurrent callers see a linearizable, race-free filesystem.

type c11Op struct {
	Kind string `json:"kind"` // put | get | mkdir | remove | rename | chmod | chown | chtimes | stat | list
	Path string `json:"path"`
	To   string `json:"to,omitempty"`
	Size int    `json:"size,omitempty"`
	Seed uint64 `json:"seed,omitempty"`
	Perm uint32 `json:"perm,omitempty"`
}

type c11Case struct {
	Setup     []c11Op   `json:"setup"`    // executed sequentially first
	Programs  [][]c11Op `json:"programs"` // one per goroutine
	Schedules []uint64  `json:"schedules"`
	Procs     int       `json:"gomaxprocs"`
	Rebuilt   bool      `json:"rebuilt"` // the concurrent phase runs on an instance whose index was rebuilt from the tape
	Scenario  string    `json:"scenario,omitempty"`
}

// what one call observed
type c11Out struct {
	Err   bool
	Data  string // get
	Kind  string // stat
	Size  int64
	Names string // list
}

// the calls that make up the history (a put is two calls: create and commit)
type c11In struct {
	Call string // create | commit | get | mkdir | remove | rename | chmod | chown | chtimes | stat | list
	Op   c11Op
}

type c11State struct {
	fs  *model.FS
	key string
}

func stateKey(m *model.FS) string {
	var b strings.Builder
	for _, p := range m.Paths() {
		n := m.Nodes[p]
		fmt.Fprintf(&b, "%s|%s|%o|%d:%d|%x;", p, n.Kind, n.Perm, n.UID, n.GID, n.Content)
	}
	return b.String()
}

var c11Model = porcupine.Model{
	Init: func() interface{} { m := model.New(); return c11State{m, stateKey(m)} },
	Step: func(st, in, out interface{}) (bool, interface{}) {
		s, i, o := st.(c11State), in.(c11In), out.(c11Out)
		m := s.fs.Clone()
		var want c11Out
		op := i.Op
		switch i.Call {
		case "create":
			n := m.Get(op.Path)
			switch {
			case n != nil && n.Kind == "dir":
				want.Err = true
			case n != nil:
				// truncation is committed together with the content
			default:
				if h, e := m.Open(op.Path, os.O_RDWR|os.O_CREATE|os.O_TRUNC, 0666); e != "" {
					want.Err = true
				} else {
					h.Close()
				}
			}
		case "commit":
			n := m.Get(op.Path)
			if n == nil || n.Kind != "file" {
				want.Err = o.Err // the owner's file cannot vanish by construction
			} else {
				n.Content = hist.Bytes(op.Size, 3, op.Seed)
			}
		case "open":
			// Open resolves the path once; what it hands out is a path-based handle
			n := m.Get(op.Path)
			if n == nil {
				want.Err = true
			} else {
				want.Kind = n.Kind
			}
		case "read":
			// the content is looked up by path when the handle is read (op.To = kind seen by open)
			n := m.Get(op.Path)
			if op.To != "file" || n == nil || n.Kind != "file" {
				want.Err = true
			} else {
				want.Data = string(n.Content)
				if op.Kind == "peek" && op.Size >= 0 && len(want.Data) > op.Size {
					want.Data = want.Data[:op.Size] // a prefix read followed by an early Close
				}
			}
		case "readdir":
			// a directory handle lists whatever lies below its path at the time of the call
			n := m.Get(op.Path)
			if op.To != "dir" {
				want.Err = true
			} else if n != nil && n.Kind == "dir" {
				var names []string
				for _, c := range m.Children(op.Path) {
					names = append(names, path.Base(c))
				}
				want.Names = strings.Join(names, ",")
			}
		case "get":
			n := m.Get(op.Path)
			if n == nil || n.Kind != "file" {
				want.Err = true
			} else {
				want.Data = string(n.Content)
			}
		case "mkdir":
			want.Err = m.Mkdir(op.Path, op.Perm) != ""
		case "mkdirall":
			want.Err = m.MkdirAll(op.Path, op.Perm) != ""
		case "removeall":
			want.Err = m.RemoveAll(op.Path) != ""
		case "remove":
			want.Err = m.Remove(op.Path) != ""
		case "rename":
			want.Err = m.Rename(op.Path, op.To) != ""
		case "chmod":
			want.Err = m.Chmod(op.Path, op.Perm) != ""
		case "chown":
			want.Err = m.Chown(op.Path, int(op.Perm), int(op.Perm)+1) != ""
		case "chtimes":
			want.Err = m.Chtimes(op.Path, 1e18, 2e18) != ""
		case "stat":
			n := m.Get(op.Path)
			if n == nil {
				want.Err = true
			} else {
				want.Kind = n.Kind
				if n.Kind == "file" {
					want.Size = int64(len(n.Content))
				}
			}
		case "list":
			n := m.Get(op.Path)
			if n == nil || n.Kind != "dir" {
				want.Err = true
			} else {
				var names []string
				for _, c := range m.Children(op.Path) {
					names = append(names, path.Base(c))
				}
				want.Names = strings.Join(names, ",")
			}
		}
		if want != o {
			return false, st
		}
		return true, c11State{m, stateKey(m)}
	},
	Equal: func(a, b interface{}) bool { return a.(c11State).key == b.(c11State).key },
	DescribeOperation: func(in, out interface{}) string {
		i, o := in.(c11In), out.(c11Out)
		return fmt.Sprintf("%s(%s %s) -> %+v", i.Call, i.Op.Path, i.Op.To, o)
	},
}

type c11Rec struct {
	client int
	in     c11In
	out    c11Out
	call   int64
	ret    int64
}

// c11Exec runs one program call against the filesystem and records the history entries.
// c11Gate: while finding F-11 is open a handle that was read only in part keeps the drive
// and deadlocks any call that needs it, so a peek (open, prefix read, early Close) excludes
// the other clients' calls until its Close has returned; they arrive right behind it, while
// the handle's restore goroutine is still winding down.
var c11Gate sync.RWMutex

func c11Exec(fsys *world.World, client int, op c11Op, clock *int64, rec func(c11Rec)) *observe.HangError {
	var hang *observe.HangError
	// a decoder that ends its stream with a zero-length write (parallelgzip) keeps even a
	// drained handle waiting: exact-length reads are un-gated only without compression
	plainPipeline := fsys.Cfg.Compression == ""
	gated := guard("F-11")
	if gated && op.Kind == "peek" {
		c11Gate.Lock()
		defer c11Gate.Unlock()
	}
	do := func(call string, f func() c11Out) {
		if hang != nil {
			return
		}
		if gated && op.Kind != "peek" {
			c11Gate.RLock()
			defer c11Gate.RUnlock()
		}
		r := c11Rec{client: client, in: c11In{Call: call, Op: op}}
		r.call = atomic.AddInt64(clock, 1)
		var out c11Out
		if e := hist.Call(fmt.Sprintf("client %d %s %s", client, call, op.Path), func() { out = f() }); e != nil {
			hang = e.(*observe.HangError)
			return
		}
		r.ret = atomic.AddInt64(clock, 1)
		r.out = out
		rec(r)
	}
	f := fsys.FS
	switch op.Kind {
	case "put":
		var h afero.File
		ok := false
		do("create", func() c11Out {
			var err error
			h, err = f.Create(op.Path)
			ok = err == nil
			return c11Out{Err: err != nil}
		})
		if ok && hang == nil {
			// the write only touches the handle's private buffer: not a call of the history
			if e := hist.Call("write", func() { h.Write(hist.Bytes(op.Size, 3, op.Seed)) }); e != nil {
				return e.(*observe.HangError)
			}
			do("commit", func() c11Out { return c11Out{Err: h.Close() != nil} })
		}
	case "get", "getx", "peek":
		var h afero.File
		kind := ""
		do("open", func() c11Out {
			var err error
			h, err = f.Open(op.Path)
			if err != nil {
				return c11Out{Err: true}
			}
			kind = "file"
			if fi, err := h.Stat(); err == nil && fi.IsDir() {
				kind = "dir"
			}
			return c11Out{Kind: kind}
		})
		if h != nil && hang == nil {
			op.To = kind
			do("read", func() c11Out {
				defer h.Close()
				if kind != "file" {
					return c11Out{Err: true}
				}
				if op.Kind == "peek" {
					// a prefix of the content, then Close before the stream has ended
					size := op.Size
					if size < 0 {
						// exactly as many bytes as the file has: the stream is drained, but its end is never seen
						if fi, err := h.Stat(); err == nil {
							size = int(fi.Size())
						}
					}
					buf := make([]byte, size)
					n, err := io.ReadFull(h, buf)
					if err != nil && err != io.EOF && err != io.ErrUnexpectedEOF {
						return c11Out{Err: true}
					}
					return c11Out{Data: string(buf[:n])}
				}
				// one Read call with a buffer larger than any generated content: the stream is
				// consumed to its end inside the call (finding F-11)
				buf := make([]byte, 64*1024)
				if op.Kind == "getx" && (plainPipeline || !guard("F-11")) {
					// ... or with a buffer of exactly the content's length: every byte is taken in
					// the one call, the end of the stream is not seen (own files only: their
					// length cannot change between Stat and Read)
					if fi, err := h.Stat(); err == nil && fi.Size() > 0 {
						buf = make([]byte, fi.Size())
					}
				}
				n, err := h.Read(buf)
				if err != nil && err.Error() != "EOF" {
					return c11Out{Err: true}
				}
				return c11Out{Data: string(buf[:n])}
			})
		}
	case "mkdir":
		do("mkdir", func() c11Out { return c11Out{Err: f.Mkdir(op.Path, os.FileMode(op.Perm)) != nil} })
	case "mkdirall":
		do("mkdirall", func() c11Out { return c11Out{Err: f.MkdirAll(op.Path, os.FileMode(op.Perm)) != nil} })
	case "removeall":
		do("removeall", func() c11Out { return c11Out{Err: f.RemoveAll(op.Path) != nil} })
	case "remove":
		do("remove", func() c11Out { return c11Out{Err: f.Remove(op.Path) != nil} })
	case "rename":
		do("rename", func() c11Out { return c11Out{Err: f.Rename(op.Path, op.To) != nil} })
	case "chmod":
		do("chmod", func() c11Out { return c11Out{Err: f.Chmod(op.Path, os.FileMode(op.Perm)) != nil} })
	case "chown":
		do("chown", func() c11Out { return c11Out{Err: f.Chown(op.Path, int(op.Perm), int(op.Perm)+1) != nil} })
	case "chtimes":
		do("chtimes", func() c11Out {
			return c11Out{Err: f.Chtimes(op.Path, time.Unix(0, 1e18), time.Unix(0, 2e18)) != nil}
		})
	case "stat":
		do("stat", func() c11Out {
			fi, err := f.Stat(op.Path)
			if err != nil {
				return c11Out{Err: true}
			}
			if fi.IsDir() {
				return c11Out{Kind: "dir"}
			}
			return c11Out{Kind: "file", Size: fi.Size()}
		})
	case "list":
		var h afero.File
		kind := ""
		do("open", func() c11Out {
			var err error
			h, err = f.Open(op.Path)
			if err != nil {
				return c11Out{Err: true}
			}
			kind = "file"
			if fi, err := h.Stat(); err == nil && fi.IsDir() {
				kind = "dir"
			}
			return c11Out{Kind: kind}
		})
		if h != nil && hang == nil {
			op.To = kind
			do("readdir", func() c11Out {
				defer h.Close()
				names, err := h.Readdirnames(-1)
				if err != nil {
					return c11Out{Err: true}
				}
				sort.Strings(names)
				return c11Out{Names: strings.Join(names, ",")}
			})
		}
	}
	return hang
}

func c11Run(f failer, cfg world.Cfg, c c11Case) {
	live.J.Begin(hist.Case{Property: "C11", Cfg: cfg, Params: hist.Params{"c11": c}, Steps: []hist.Step{}})
	// (GOMAXPROCS is set per worker process by the driver, not switched inside the process:
	// switching it between cases under the race detector crashed the Go runtime itself)
	overlaps := 0
	for _, sched := range c.Schedules {
		probe := &world.Probe{}
		var ctr uint64
		probe.Yield = func(seam string) {
			x := (sched + atomic.AddUint64(&ctr, 1)) * 0x9E3779B97F4A7C15
			x ^= x >> 29
			k := x % 8
			if (seam == world.SeamCloseReader || seam == world.SeamCloseWriter) && k >= 4 {
				k = 2 // the release of the drive is where hand-overs between clients happen
			}
			switch k {
			case 0, 1:
				runtime.Gosched()
			case 2:
				time.Sleep(time.Duration(50+x%400) * time.Microsecond)
			}
		}
		dir := world.NewDir("c11")
		var w *world.World
		var err error
		checkObs(f, hist.Call("construct", func() { w, err = world.New(cfg, world.Opts{Dir: dir, Probe: probe}) }), "construct")
		if err != nil || w.InitErr != nil {
			failf(f, "cannot build world: %v %v", err, w.InitErr)
		}
		var clock int64
		var mu sync.Mutex
		var recs []c11Rec
		rec := func(r c11Rec) { mu.Lock(); recs = append(recs, r); mu.Unlock() }
		for _, op := range c.Setup {
			if h := c11Exec(w, 0, op, &clock, rec); h != nil {
				busyIsInconclusive(f, h)
				failf(f, "setup %+v: %s", op, h.Detail)
			}
		}
		if c.Rebuilt {
			w.Close()
			var w2 *world.World
			checkObs(f, hist.Call("reconstruct over an empty index", func() {
				w2, err = world.New(cfg, world.Opts{Dir: dir, Drive: w.Drive, DB: w.DB + ".rebuilt", Probe: probe})
			}), "construct")
			if err != nil || w2.InitErr != nil {
				failf(f, "cannot rebuild: %v %v", err, w2.InitErr)
			}
			w = w2
		}
		var wg sync.WaitGroup
		hangs := make([]*observe.HangError, len(c.Programs))
		for i, prog := range c.Programs {
			wg.Add(1)
			go func(i int, prog []c11Op) {
				defer wg.Done()
				for _, op := range prog {
					if h := c11Exec(w, i+1, op, &clock, rec); h != nil {
						hangs[i] = h
						return
					}
				}
			}(i, prog)
		}
		done := make(chan struct{})
		go func() { wg.Wait(); close(done) }()
		<-done
		for i, h := range hangs {
			if h != nil {
				if h.Verdict == live.Timeout {
					inconclusive(f, h.Detail)
				}
				failf(f, "schedule %d: a call of client %d did not complete: %s", sched, i+1, h.Detail)
			}
		}
		// the final tree is one more observation, after everything returned
		snap, e := observe.Snapshot(hist.Call, w.FS, true)
		checkObs(f, e, "final snapshot")
		ts := atomic.AddInt64(&clock, 1)
		for _, en := range snap.Entries {
			if en.Path == "/" {
				continue
			}
			op := c11Op{Path: en.Path}
			out := c11Out{Kind: en.Kind}
			if en.Kind == "file" {
				out.Size = en.Size
				recs = append(recs, c11Rec{client: 0, in: c11In{Call: "get", Op: op}, out: c11Out{Data: string(en.Content), Err: en.ReadErr != ""}, call: ts, ret: ts + 1})
			}
			recs = append(recs, c11Rec{client: 0, in: c11In{Call: "stat", Op: op}, out: out, call: ts, ret: ts + 1})
		}
		for _, d := range append([]string{"/"}, dirsOf(snap)...) {
			var names []string
			for _, en := range snap.Entries {
				if en.Path != "/" && path.Dir(en.Path) == d {
					names = append(names, path.Base(en.Path))
				}
			}
			sort.Strings(names)
			recs = append(recs, c11Rec{client: 0, in: c11In{Call: "list", Op: c11Op{Path: d}}, out: c11Out{Names: strings.Join(names, ",")}, call: ts, ret: ts + 1})
		}
		var ops []porcupine.Operation
		for _, r := range recs {
			ops = append(ops, porcupine.Operation{ClientId: r.client, Input: r.in, Call: r.call, Output: r.out, Return: r.ret})
		}
		for i := range recs {
			for j := i + 1; j < len(recs); j++ {
				a, b := recs[i], recs[j]
				if a.client != b.client && a.client != 0 && b.client != 0 && a.call < b.ret && b.call < a.ret &&
					(a.in.Op.Path == b.in.Op.Path || path.Dir(a.in.Op.Path) == path.Dir(b.in.Op.Path)) {
					overlaps++
				}
			}
		}
		res, info := porcupine.CheckOperationsVerbose(c11Model, ops, 30*time.Second)
		live.S.AddInner(1)
		switch res {
		case porcupine.Illegal:
			var lines []string
			sort.Slice(recs, func(i, j int) bool { return recs[i].call < recs[j].call })
			for _, r := range recs {
				lines = append(lines, fmt.Sprintf("  [%3d,%3d] client %d: %s", r.call, r.ret, r.client, c11Model.DescribeOperation(r.in, r.out)))
			}
			_ = info
			failf(f, "schedule %d: the outcomes and the final filesystem are not those of any sequential order of the calls that respects their real-time order:\n%s", sched, strings.Join(lines, "\n"))
		case porcupine.Unknown:
			live.S.Class("linearizability-search-timeout")
		default:
			live.S.Class("linearizable")
		}
		// the final state is still reproducible from the tape
		x := &hctx{prop: "C11", f: f, cfg: cfg, r: &hist.Runner{Cfg: cfg, Dir: dir, W: w, Opts: w.Opts}}
		if msg := rebuildEquivalence(x); msg != "" {
			failf(f, "schedule %d: after the concurrent run: %s", sched, msg)
		}
		w.Close()
		os.RemoveAll(dir)
	}
	live.S.Class(fmt.Sprintf("clients:%d", len(c.Programs)))
	if c.Scenario != "" {
		live.S.Class("scenario:" + c.Scenario)
	}
	live.S.Class(fmt.Sprintf("rebuilt-index:%v", c.Rebuilt))
	live.S.Case(cfg.String(), overlaps >= 1, live.J.Digest(), func() interface{} { return c })
	live.S.Flush()
}

func dirsOf(s *observe.Snap) []string {
	var d []string
	for _, e := range s.Entries {
		if e.Kind == "dir" && e.Path != "/" {
			d = append(d, e.Path)
		}
	}
	return d
}

func TestC11(t *testing.T) {
	rapid.Check(t, func(t *rapid.T) {
		cfg := hist.DrawCfg(t, 70, []int{1, 3, 20})
		nclients := rapid.IntRange(2, 8).Draw(t, "clients")
		c := c11Case{Procs: runtime.GOMAXPROCS(0), Rebuilt: rapid.IntRange(0, 1).Draw(t, "rebuilt") == 0}
		shared := []string{"/s", "/s/d1", "/s/d2"}
		c.Setup = []c11Op{{Kind: "mkdir", Path: "/s", Perm: 0755}, {Kind: "put", Path: "/s/base", Size: 700, Seed: 99}}
		if rapid.Bool().Draw(t, "presetup") {
			c.Setup = append(c.Setup, c11Op{Kind: "mkdir", Path: "/s/d1", Perm: 0755})
		}
		scenario := rapid.SampledFrom([]string{"mixed", "mixed", "replace-while-observed", "tree-while-observed"}).Draw(t, "scenario")
		if scenario != "mixed" {
			// one or two owners run multi-record calls (rename onto an existing file, remove/rename of a
			// populated directory, multi-level MkdirAll) while the other clients keep looking at the paths involved
			owners := rapid.IntRange(1, 2).Draw(t, "owners")
			for i := 0; i < nclients; i++ {
				var prog []c11Op
				if i < owners {
					f, g, d := fmt.Sprintf("/s/f%d", i), fmt.Sprintf("/s/g%d", i), fmt.Sprintf("/own%d", i)
					if scenario == "replace-while-observed" {
						c.Setup = append(c.Setup, c11Op{Kind: "put", Path: f, Size: 10, Seed: uint64(50 + i)}, c11Op{Kind: "put", Path: g, Size: 20, Seed: uint64(60 + i)})
						prog = []c11Op{{Kind: "rename", Path: f, To: g}, {Kind: "put", Path: f, Size: 5, Seed: uint64(70 + i)}, {Kind: "rename", Path: f, To: g}}
					} else {
						c.Setup = append(c.Setup, c11Op{Kind: "mkdirall", Path: d + "/k/l", Perm: 0755}, c11Op{Kind: "put", Path: d + "/k/x", Size: 9, Seed: uint64(80 + i)})
						prog = []c11Op{{Kind: "rename", Path: d + "/k", To: d + "/m"}, {Kind: "removeall", Path: d}, {Kind: "mkdirall", Path: d + "/k/l", Perm: 0755}}
					}
					prog = prog[:rapid.IntRange(1, len(prog)).Draw(t, "len")]
				} else {
					o := rapid.IntRange(0, owners-1).Draw(t, "watch")
					watch := []string{fmt.Sprintf("/s/f%d", o), fmt.Sprintf("/s/g%d", o), "/s"}
					if scenario != "replace-while-observed" {
						d := fmt.Sprintf("/own%d", o)
						watch = []string{d, d + "/k", d + "/k/l", d + "/k/x", d + "/m", d + "/m/x", "/"}
					}
					for k := 0; k < rapid.IntRange(1, 4).Draw(t, "len"); k++ {
						p := rapid.SampledFrom(watch).Draw(t, "p")
						kind := rapid.SampledFrom([]string{"stat", "stat", "get", "list", "peek"}).Draw(t, "kind")
						if kind == "list" {
							p = path.Dir(p)
						}
						prog = append(prog, c11Op{Kind: kind, Path: p, Size: 1})
					}
				}
				c.Programs = append(c.Programs, prog)
			}
		}
		for i := 0; i < nclients && scenario == "mixed"; i++ {
			own := []string{fmt.Sprintf("/s/f%d", i), fmt.Sprintf("/s/g%d", i), fmt.Sprintf("/own%d", i)}
			any := append(append([]string{"/s/base", "/", "/missing"}, shared...), own...)
			// other clients' files are observed, never written or removed
			for j := 0; j < nclients; j++ {
				if j != i {
					any = append(any, fmt.Sprintf("/s/f%d", j))
				}
			}
			var prog []c11Op
			n := rapid.IntRange(1, 4).Draw(t, "len")
			for k := 0; k < n; k++ {
				kind := rapid.SampledFrom([]string{"put", "put", "get", "mkdir", "remove", "rename", "chmod", "chown", "chtimes", "stat", "list", "get", "list", "mkdirall", "mkdirall", "removeall", "peek", "peek", "getx", "getx"}).Draw(t, "kind")
				op := c11Op{Kind: kind}
				switch kind {
				case "put":
					op.Path = rapid.SampledFrom(own[:2]).Draw(t, "ownfile")
					op.Size = rapid.SampledFrom([]int{0, 1, 30, 600, 2000, 512, 1536, 10240}).Draw(t, "size") // incl. whole records at record sizes 1, 3, 20
					op.Seed = uint64(i*10 + k + 1)
				case "mkdirall":
					// shared multi-level paths (several clients race for the same missing prefix) and own subtrees
					op.Path = rapid.SampledFrom([]string{"/s/m/x/y", "/s/m/x", "/s/m/z/w", "/s/d2/k", own[2] + "/k/l"}).Draw(t, "deep")
					op.Perm = 0755
				case "removeall":
					op.Path = own[2]
				case "remove":
					op.Path = rapid.SampledFrom(own).Draw(t, "own")
				case "rename":
					op.Path = rapid.SampledFrom(own[:2]).Draw(t, "own")
					op.To = rapid.SampledFrom(own[:2]).Draw(t, "ownto")
				case "mkdir":
					op.Path = rapid.SampledFrom(append(shared, own[2])).Draw(t, "dir")
					op.Perm = 0755
				case "chmod", "chown":
					op.Path = rapid.SampledFrom(append(shared, own...)).Draw(t, "p")
					op.Perm = uint32(rapid.SampledFrom([]int{0600, 0644, 0755, 0777}).Draw(t, "perm"))
				case "chtimes":
					op.Path = rapid.SampledFrom(append(shared, own...)).Draw(t, "p")
				case "list":
					op.Path = rapid.SampledFrom([]string{"/", "/s", "/s/d1", "/s/base", own[0]}).Draw(t, "dir") // a listing asked of a file is refused
				case "getx":
					op.Path = rapid.SampledFrom(own[:2]).Draw(t, "ownfile")
				case "peek":
					op.Path = rapid.SampledFrom(any).Draw(t, "p")
					op.Size = rapid.SampledFrom([]int{1, 1, 7, 100, 700, -1, -1}).Draw(t, "peek")
				default:
					op.Path = rapid.SampledFrom(any).Draw(t, "p")
				}
				prog = append(prog, op)
			}
			c.Programs = append(c.Programs, prog)
		}
		c.Scenario = scenario
		ns := *schedules
		for i := 0; i < ns; i++ {
			c.Schedules = append(c.Schedules, rapid.Uint64Range(1, 1<<40).Draw(t, "schedule"))
		}
		c11Run(t, cfg, c)
	})
}

func init() {
	customReplays["C11"] = func(t *testing.T, c *hist.Case, path string) {
		var cc c11Case
		remarshal(c.Params["c11"], &cc)
		// a schedule cannot be replayed exactly: run the case repeatedly
		for i := 0; i < *replayRuns; i++ {
			c11Run(t, c.Cfg, cc)
		}
	}
}

var _ = bytes.Equal
