package props

import (
	"fmt"
	"os"
	"testing"

	"pgregory.net/rapid"
	"verif/harness/hist"
	"verif/harness/live"
	"verif/harness/observe"
	"verif/harness/world"
)

// C10 — every call returns and leaves the drive free, even when something fails.

type c10Fault struct {
	Step  int    `json:"step"`
	Seam  string `json:"seam"`
	K     int    `json:"k"`
	Short bool   `json:"short,omitempty"`
	Dead  bool   `json:"dead,omitempty"` // the seam keeps failing from the k-th interaction on, until the call returns
}

type c10Params struct {
	Only *c10Fault `json:"only,omitempty"` // replay a single fault point
}

// c10Seams: which seams are enumerated (open_* only while F-10b does not guard them).
func c10Seams() []string {
	s := []string{world.SeamDriveWrite, world.SeamDriveRead, world.SeamMeta, world.SeamCacheRead}
	if !guard("F-10b") {
		s = append(s, world.SeamOpenWriter, world.SeamOpenReader)
	}
	return s
}

func c10Do(f failer, r *hist.Runner, s hist.Step, what string) hist.Res {
	res := r.Do(s)
	if res.Hang != nil {
		failf(f, "%s: %s", what, res.Hang.Detail)
	}
	return res
}

func c10Run(f failer, cfg world.Cfg, p c10Params, steps []hist.Step) {
	busyIsViolation = true
	live.J.Begin(hist.Case{Property: "C10", Cfg: cfg, Params: hist.Params{"c10": p}, Steps: []hist.Step{}})
	for _, s := range steps {
		live.J.Add(s)
	}
	// ---- a fresh manager whose very first open for writing fails (with and without the
	// overwrite flag of `operation initialize`): the drive is free for the calls behind it ----
	if p.Only == nil && !guard("F-10b") {
		for _, ow := range []bool{false, true} {
			pr := &world.Probe{}
			pr.Arm(world.SeamOpenWriter, 1, false)
			dir := world.NewDir("c10first")
			what := fmt.Sprintf("the first open for writing of a fresh manager fails (overwrite manager=%v)", ow)
			var w *world.World
			var err error
			checkObs(f, hangOnly(hist.Call("New+Initialize", func() { w, err = world.New(cfg, world.Opts{Dir: dir, Probe: pr, Overwrite: ow}) })), what)
			if err == nil && w != nil {
				_, _, fired := pr.Snapshot()
				pr.Disarm()
				live.S.Class(fmt.Sprintf("first-open-fault:overwrite=%v:fired=%v", ow, fired))
				live.S.AddInner(1)
				checkObs(f, hangOnly(hist.Call("Initialize", func() { _, _ = w.FS.Initialize("/", os.ModePerm) })), what+": then Initialize again")
				checkObs(f, hangOnly(hist.Call("Stat", func() { _, _ = w.FS.Stat("/") })), what+": then Stat")
				checkObs(f, hangOnly(hist.Call("Mkdir", func() { _ = w.FS.Mkdir("/first", 0755) })), what+": then Mkdir")
				w.Close()
			}
			_ = os.RemoveAll(dir)
		}
	}
	// ---- fault-free dry run: count the interactions of every call at every seam ----
	probe := &world.Probe{}
	dry, err := hist.NewRunner(cfg, world.Opts{Probe: probe})
	if err != nil {
		checkObs(f, hangOnly(err), "construct")
		failf(f, "cannot build world: %v", err)
	}
	counts := make([]map[string]int, len(steps))
	var someFile string
	mr := hist.NewMRunner()
	for i, s := range steps {
		probe.Reset()
		res := c10Do(f, dry, s, fmt.Sprintf("fault-free step %d %s", i, s))
		mr.Do(s)
		c, _, _ := probe.Snapshot()
		counts[i] = c
		if !res.Skipped {
			live.S.Class("call:" + s.Op)
		}
	}
	for _, pth := range mr.M.Paths() {
		if n := mr.M.Nodes[pth]; n.Kind == "file" && !mr.OpenPaths()[pth] {
			someFile = pth
			break
		}
	}
	dry.Finish()
	errored, swallowed, points := 0, 0, 0
	for i, s := range steps {
		for _, seam := range c10Seams() {
			for k := 1; k <= counts[i][seam]; k++ {
				// modes: 0 = one fault, 1 = short write, 2 = the medium stays dead for the rest of the call
				modes := []int{0}
				if seam == world.SeamDriveWrite {
					modes = []int{0, 1}
				}
				if seam == world.SeamDriveRead && (k == 1 || k == counts[i][seam] || k == (counts[i][seam]+1)/2) {
					modes = []int{0, 2}
				}
				for _, mode := range modes {
					short := mode == 1
					fp := c10Fault{Step: i, Seam: seam, K: k, Short: short, Dead: mode == 2}
					if p.Only != nil && *p.Only != fp {
						continue
					}
					points++
					live.S.AddInner(1)
					live.J.Add(map[string]interface{}{"fault": fp})
					pr := &world.Probe{}
					r, err := hist.NewRunner(cfg, world.Opts{Probe: pr})
					if err != nil {
						checkObs(f, hangOnly(err), "construct")
						failf(f, "cannot build world: %v", err)
					}
					what := fmt.Sprintf("fault at the %d. %s of step %d %s (short=%v)", k, seam, i, s, short)
					for j := 0; j < i; j++ {
						c10Do(f, r, steps[j], fmt.Sprintf("%s: replaying the prefix, step %d %s", what, j, steps[j]))
					}
					if fp.Dead {
						pr.ArmPersistent(seam, k)
						what += " and every later one until the call returns"
					} else {
						pr.Arm(seam, k, short)
					}
					res := c10Do(f, r, s, what+": the faulted call")
					_, _, fired := pr.Snapshot()
					pr.Disarm()
					label := "swallowed"
					if !fired {
						label = "not-reached"
					} else if res.Err != nil {
						label = "error-returned"
						errored++
					} else {
						swallowed++
					}
					live.S.Class("fault:" + seam + ":" + s.Op + ":" + label)
					// ---- any next call must return too: the drive is free again ----
					if someFile != "" {
						_, e := observe.ReadAll(hist.Call, r.W.FS, someFile)
						checkObs(f, hangOnly(e), what+": then reading "+someFile)
					}
					c10Do(f, r, hist.Step{Op: "stat", Path: "/"}, what+": then Stat")
					c10Do(f, r, hist.Step{Op: "mkdir", Path: fmt.Sprintf("/probe-%d", points), Perm: 0755}, what+": then Mkdir of a fresh name")
					if s.Op != "close" && s.Op != "reopen" {
						c10Do(f, r, s, what+": then the same call again without a fault")
					}
					r.Finish()
				}
			}
		}
	}
	var ss []string
	for _, s := range steps {
		ss = append(ss, s.String())
	}
	live.S.AddSteps(len(steps))
	live.S.Case(cfg.String(), errored >= 1, live.J.Digest(), func() interface{} {
		return map[string]interface{}{"cfg": cfg.String(), "steps": ss, "fault_points": points, "faults_returned_as_error": errored, "faults_swallowed": swallowed}
	})
	live.S.Flush()
	_ = os.Remove
}

var c10Weights = map[string]int{
	"create": 6, "openfile": 3, "write": 6, "writestring": 1, "sync": 1, "close": 6, "read": 3, "seek": 1, "truncate": 1,
	"mkdir": 4, "mkdirall": 2, "remove": 3, "removeall": 3, "rename": 4,
	"chmod": 2, "chown": 1, "chtimes": 1, "stat": 1, "list": 1, "symlink": 1,
	"arch_archive": 3, "arch_update": 2, "arch_delete": 2, "arch_move": 2, "arch_restore": 2,
}

// c10Avoid adds the guard of F-11 to the common rules: while it is open, reads are
// generated with a buffer that takes the whole file so that no half-consumed stream is left.
func c10Avoid() func(hist.Step, *hist.MRunner) string {
	base := avoidFor("C10")
	return func(s hist.Step, mr *hist.MRunner) string {
		if g := base(s, mr); g != "" {
			return g
		}
		if guard("F-11") {
			switch s.Op {
			case "read", "readat", "seek":
				if h := mr.Slots[s.Slot]; h != nil {
					// a Read that takes every remaining byte drains the stream (even if it does
					// not get to see its end): only reads that leave bytes behind are steered away
					if s.Op != "read" || int64(s.N) < h.Size()-h.Pos || h.Pos > 0 {
						return "F-11"
					}
				}
			}
		}
		return ""
	}
}

func TestC10(t *testing.T) {
	busyIsViolation = true
	rapid.Check(t, func(t *rapid.T) {
		cfg := hist.DrawCfg(t, 50, []int{1, 3, 20})
		g := hist.NewGen(t, c10Weights, hist.Universe[:13], 3, cfg.RecordSize).WithSuffixNames(t, cfg)
		g.Avoid = c10Avoid()
		g.MaxSize = 3000
		n := rapid.IntRange(3, *maxSteps).Draw(t, "nsteps")
		// draw the whole history first (against the reference model), then enumerate faults
		mr := hist.NewMRunner()
		var steps []hist.Step
		if rapid.IntRange(0, 4).Draw(t, "link-maze") == 0 {
			// a maze of links over three names: chains, loops, self-links, dangling links, links
			// over existing entries; the calls that follow address the same three names
			names := []string{"/p", "/q", "/r"}
			if rapid.Bool().Draw(t, "maze-file") {
				steps = append(steps, hist.Step{Op: "create", Path: "/r", Slot: 0}, hist.Step{Op: "write", Slot: 0, Size: 10, Dist: 3, Seed: 1}, hist.Step{Op: "close", Slot: 0})
			}
			for i, k := 0, rapid.IntRange(2, 4).Draw(t, "maze-links"); i < k; i++ {
				steps = append(steps, hist.Step{Op: "symlink", Path: rapid.SampledFrom(names).Draw(t, "target"), Path2: rapid.SampledFrom(names).Draw(t, "link")})
			}
			// every name of the maze is opened (and stat-ed) once
			for _, nm := range names {
				steps = append(steps, hist.Step{Op: "stat", Path: nm}, hist.Step{Op: "open", Path: nm, Slot: 1}, hist.Step{Op: "close", Slot: 1})
			}
			for _, st := range steps {
				mr.Do(st)
			}
			g.Comps = []string{"p", "q", "r"}
			live.S.Class("link-maze")
		}
		// (while F-11 is open only without compression: a decoder that ends its stream with a
		// zero-length write - parallelgzip's WriteTo - keeps even a drained handle's restore
		// goroutine, and with it the drive, waiting for the reader)
		if len(steps) == 0 && rapid.IntRange(0, 4).Draw(t, "drained-handle") == 0 && (cfg.Compression == "" || !guard("F-11")) {
			// a handle that has taken every byte of a content of whole records (without getting to
			// see the end of the stream) stays open while the calls that follow need the drive
			size := cfg.RecordSize * 512 * rapid.IntRange(1, 2).Draw(t, "records")
			pro := []hist.Step{{Op: "create", Path: "/rz", Slot: 0}, {Op: "write", Slot: 0, Size: size, Dist: 1, Seed: 3}, {Op: "close", Slot: 0},
				{Op: "open", Path: "/rz", Slot: 2}, {Op: "read", Slot: 2, N: size}, {Op: "mkdir", Path: "/after-drain", Perm: 0755}}
			for _, st := range pro {
				mr.Do(st)
			}
			steps = append(steps, pro...)
			live.S.Class("drained-handle-stays-open")
		}
		for i := 0; i < n; i++ {
			s := g.Draw(t, mr)
			mr.Do(s)
			steps = append(steps, s)
		}
		c10Run(t, cfg, c10Params{}, steps)
		for k, v := range g.Excluded {
			for i := 0; i < v; i++ {
				live.S.Exclude(k)
			}
		}
	})
}

func init() {
	customReplays["C10"] = func(t *testing.T, c *hist.Case, path string) {
		var p c10Params
		remarshal(c.Params["c10"], &p)
		c10Run(t, c.Cfg, p, c.Steps)
	}
}
