#!/bin/bash
# Confirms a seeded change in a scratch worktree: builds, keeps the -short suite green,
# and its demonstration fails with the change and passes without it.
# usage: seedverify.sh <dir with patch.diff + demo_test.go> <relative path for the demo in the repo>
set -u
export GOFLAGS=-mod=mod GOPROXY=off GOSUMDB=off GOTOOLCHAIN=local
D=$1; DEMO_PATH=$2; RUN=${3:-.}; SHORT=${SHORT--short}
WT=/tmp/wt-verify-$$
git -C /repo worktree add -q --detach $WT HEAD || exit 2
trap 'git -C /repo worktree remove --force $WT >/dev/null 2>&1' EXIT
cd $WT
mkdir -p $(dirname $WT/$DEMO_PATH); cp $D/demo_test.go $WT/$DEMO_PATH
PKG=./$(dirname $DEMO_PATH)
echo "== demo WITHOUT the change"
timeout 900 go test -vet=off -count=1 $SHORT -run "$RUN" $PKG > /tmp/sv-$$-a.log 2>&1; A=$?
tail -3 /tmp/sv-$$-a.log
git apply $D/patch.diff || { echo "patch does not apply"; exit 2; }
echo "== build"
timeout 300 go build ./... || { echo "BUILD FAILS"; exit 1; }
echo "== demo WITH the change"
timeout 900 go test -vet=off -count=1 $SHORT -run "$RUN" $PKG > /tmp/sv-$$-b.log 2>&1; B=$?
tail -5 /tmp/sv-$$-b.log
rm -f $WT/$DEMO_PATH
echo "== -short suite WITH the change"
REPO=$WT /verif/tools/gate.sh; G=$?
echo "RESULT demo_without=$A demo_with=$B gate=$G"
rm -f /tmp/sv-$$-*.log
[ $A -eq 0 ] && [ $B -ne 0 ] && [ $G -eq 0 ]
