#!/bin/bash
# Regression gate for a change to /repo: the -short suite (all 2343 tests pass on the
# pinned tree) and, with --full, the pinned baseline run (10401 stable passes).
export GOFLAGS=-mod=mod GOPROXY=off GOSUMDB=off GOTOOLCHAIN=local
REPO=${REPO:-/repo}
out=$(mktemp -d /dev/shm/gate.XXXX)
cd $REPO || exit 2
go build ./... || { echo "GATE: build failed"; exit 1; }
go test -short -json -vet=off -count=1 -timeout 20m ./... > $out/short.json 2>$out/short.err
python3 - $out/short.json /verif/tools/short_passed.json <<'PY' || { rm -rf $out; exit 1; }
import json,sys
passed=set()
for l in open(sys.argv[1]):
    try: e=json.loads(l)
    except: continue
    if e.get('Test') and e.get('Action')=='pass': passed.add(e['Package']+'::'+e['Test'])
want=set(json.load(open(sys.argv[2])))
miss=sorted(want-passed)
print("GATE short: %d/%d baseline-passing tests pass"%(len(want)-len(miss),len(want)))
for m in miss[:20]: print("  MISSING", m)
sys.exit(1 if miss else 0)
PY
if [ "$1" = "--full" ]; then
  go test -json -vet=off -count=1 -timeout 25m ./... > $out/full.json 2>$out/full.err
  python3 - $out/full.json <<'PY' || { rm -rf $out; exit 1; }
import json,sys
passed=set()
for l in open(sys.argv[1]):
    try: e=json.loads(l)
    except: continue
    if e.get('Test') and e.get('Action')=='pass': passed.add(e['Package']+'::'+e['Test'])
want=set(json.load(open('/root/.vp/BASELINE.json'))['stable_pass'])
miss=sorted(want-passed)
print("GATE full: %d/%d stable-pass tests pass"%(len(want)-len(miss),len(want)))
for m in miss[:20]: print("  MISSING", m)
sys.exit(1 if miss else 0)
PY
fi
rm -rf $out
git -C $REPO status --short | grep -v '^ M\|^M ' | head
