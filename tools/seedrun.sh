#!/bin/bash
# Applies a seeded change to /repo, runs the given checks (quick tier), undoes it.
# usage: seedrun.sh <patch.diff> Cxx [Cyy ...]
set -u
P=$1; shift
cd /repo || exit 2
[ -z "$(git status --porcelain)" ] || { echo "/repo is not clean"; exit 2; }
git apply "$P" || { echo "patch does not apply"; exit 2; }
trap 'git -C /repo checkout -- . ; git -C /repo clean -fdq' EXIT
cd /verif
for c in "$@"; do
  timeout 3000 ./check $c --tier quick --no-evidence > /tmp/seedrun-$c.log 2>&1; rc=$?
  echo "$c exit=$rc $(grep -a -m1 '^VIOLATION' /tmp/seedrun-$c.log) $(grep -a -m1 'held on' /tmp/seedrun-$c.log | cut -c1-60)"
done
