#!/usr/bin/env python3
"""Regenerates /verif/MANIFEST.json from plan.json (claimed checks) and properties.jsonl."""
import json, os
V = os.path.dirname(os.path.dirname(os.path.abspath(__file__)))
plan = json.load(open(os.path.join(V, "plan.json")))
props = [json.loads(l) for l in open(os.path.join(V, "properties.jsonl")) if l.strip()]
na_reasons = json.load(open(os.path.join(V, "tools", "not_applicable.json"))) if os.path.exists(os.path.join(V, "tools", "not_applicable.json")) else {}
checks, na = [], []
for p in props:
    i = p["id"]
    if i in plan and not plan[i].get("unclaimed"):
        pl = plan[i]
        checks.append({
            "property_id": i,
            "quick_cmd": "./check %s --tier quick" % i,
            "thorough_cmd": "./check %s --tier thorough" % i,
            "evidence_file": "/verif/evidence/%s.json" % i,
            "replay_cmd_template": "./check %s --replay {path}" % i,
            "engine": "rapid-harness",
            "level_claimed": {"category": pl["level"], "text": pl["level_text"], "design_ref": "DESIGN.md §4/%s" % i},
            "level_note": pl["level_note"],
            "technique": pl["technique"],
        })
    else:
        na.append({"property_id": i, "reason": na_reasons.get(i, "not claimed yet: the check for this property is not built in this revision (no technique switch is involved; see DESIGN.md §4/%s for the planned generated-input check)" % i)})
m = {
    "version": 1,
    "setup_cmd": "./setup.sh",
    "hooks": {"guard": "verif", "enable": "-tags verif (no hook file exists: every seam the checks need is a public interface or function field of pojntfx/stfs)", "baseline_off_cmd": "cd /repo && go test -vet=off -count=1 -timeout 25m ./...", "source_commits": [], "add_only": True},
    "engines": [{"name": "rapid-harness", "path": "/verif/harness", "serves_properties": [c["property_id"] for c in checks],
                 "kind_free_text": "Go test binary built from /repo's working tree (go.mod replace); pgregory.net/rapid v1.3.0 state-machine generation and shrinking, in-process reference models and independent observers, journal/replay, deadlock watchdog; sharded over worker processes by ./check (python3 stdlib)"}],
    "checks": checks,
    "notes": "See DESIGN.md. Every check is property-based testing / fuzzing: generated cases against an explicit oracle. known_findings.json lists genuine defects (open: KNOWN-FINDING + guard; fixed: regression replay).",
    "not_applicable": na,
}
json.dump(m, open(os.path.join(V, "MANIFEST.json"), "w"), indent=1, ensure_ascii=False)
print("checks:", [c["property_id"] for c in checks], "unclaimed:", len(na))
