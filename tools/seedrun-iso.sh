#!/bin/bash
# Runs checks against a seeded change WITHOUT touching /repo: the change is applied in a
# scratch worktree, and a scratch copy of /verif whose harness module points at that
# worktree runs the quick tier. Usable while background runs build from /repo.
# usage: seedrun-iso.sh <patch.diff> Cxx [Cyy ...]
set -u
P=$1; shift
WT=/tmp/wt-iso-$$; VS=/dev/shm/vs-$$
git -C /repo worktree add -q --detach $WT HEAD || exit 2
trap 'git -C /repo worktree remove --force $WT >/dev/null 2>&1; rm -rf $VS' EXIT
( cd $WT && git apply "$P" ) || { echo "patch does not apply"; exit 2; }
mkdir -p $VS
rsync -a --exclude .git --exclude .build --exclude replays --exclude evidence /verif/ $VS/
mkdir -p $VS/evidence
sed -i "s|=> /repo|=> $WT|" $VS/harness/go.mod
cd $VS
for c in "$@"; do
  timeout 3000 ./check $c --tier ${TIER:-quick} --no-evidence > $VS/seedrun-$c.log 2>&1; rc=$?
  echo "$c exit=$rc $(grep -a -m1 '^VIOLATION' $VS/seedrun-$c.log | sed "s|$VS|/verif|") $(grep -a -m1 'held on' $VS/seedrun-$c.log | cut -c1-60)"
done
