#!/bin/bash
# Builds the harness once from files on disk (offline) so that later checks hit a warm
# Go build cache. Every check rebuilds from /repo's current working tree anyway.
set -e
export GOFLAGS=-mod=mod GOPROXY=off GOSUMDB=off GOTOOLCHAIN=local
cd "$(dirname "$0")/harness"
mkdir -p ../.build
go test -c -tags verif -o ../.build/props.test ./props
go test -c -tags verif -race -o ../.build/props-race.test ./props
echo setup ok
